"""Run every seeded change through tools/mutcheck.sh and record the outcome in its meta.json."""
import json, os, re, subprocess, sys, time
V = os.path.dirname(os.path.dirname(os.path.abspath(__file__)))
only = sys.argv[1:]
for name in sorted(os.listdir(os.path.join(V, "seeded"))):
    d = os.path.join(V, "seeded", name)
    if not os.path.isdir(d) or (only and name not in only):
        continue
    if not os.path.exists(os.path.join(d, "meta.agent.json")):
        continue  # (self-made changes carry a hand-written meta.json)
    prop = name.split("-")[0]
    agent = json.load(open(os.path.join(d, "meta.agent.json")))
    # demonstration on the clean tree and on the patched tree is part of mutcheck's worktree run
    t = time.time()
    demo = os.path.join(d, "demo.sh") if os.path.exists(os.path.join(d, "demo.sh")) else os.path.join(d, "demo.py")
    if demo.endswith(".sh"):
        dc = subprocess.run(["bash", demo, "/repo"], cwd=d, capture_output=True, text=True, timeout=900)
    else:
        dc = subprocess.run(["/venv/bin/python", demo, "/repo"], cwd="/repo", capture_output=True, text=True,
                            timeout=900, env=dict(os.environ, PYTHONPATH="/repo"))
    p = subprocess.run([os.path.join(V, "tools", "mutcheck.sh"), os.path.join(d, "patch.diff"), prop],
                       capture_output=True, text=True, env=dict(os.environ, MUT_DEMO=demo))
    out = p.stdout
    dp = re.search(r"DEMO-PATCHED exit=(\d+)", out)
    sigs = sorted(set(re.findall(r"^  sig=(\S+)", out, re.M)))
    meta = {
        "property": prop,
        "title": agent.get("title"),
        "breaks": agent.get("property", prop),
        "what_it_needs_to_manifest": agent.get("what_it_needs_to_manifest"),
        "files_touched": agent.get("files_touched"),
        "written_by": "independent sub-agent given only the property text and its own worktree",
        "confirmed": {
            "pinned_suite_with_patch": (re.search(r"(\d+ passed[^\n]*)", out) or [None, None])[1],
            "demo_exit_on_unpatched_repo": dc.returncode,
            "demo_exit_on_patched_worktree": int(dp.group(1)) if dp else None,
        },
        "what_i_ran": "tools/mutcheck.sh seeded/%s/patch.diff %s  (scratch worktree of /repo + patch, pinned suite, "
                      "then ./vcheck %s --tier quick with SHROUD_REPO=<worktree>)" % (name, prop, prop),
        "quick_check_exit": 1 if p.returncode == 0 else 0,
        "caught_by_quick_check": p.returncode == 0,
        "violation_signatures": sigs[:8],
        "wall_s": round(time.time() - t, 1),
    }
    json.dump(meta, open(os.path.join(d, "meta.json"), "w"), indent=1)
    if "PATCH-DOES-NOT-APPLY" in out:
        meta["patch_does_not_apply_to_current_repo"] = True
        json.dump(meta, open(os.path.join(d, "meta.json"), "w"), indent=1)
        print(name, "PATCH-DOES-NOT-APPLY (the repository moved on: rebase the patch)", flush=True)
        continue
    print(name, "caught" if p.returncode == 0 else "MISSED", "demo clean/patched = %s/%s" % (
        dc.returncode, dp.group(1) if dp else "?"), sigs[:2], flush=True)
