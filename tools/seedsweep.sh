#!/bin/bash
# tools/seedsweep.sh <first> <last> [tier]: every check under several VERIF_SEED values; any exit status other
# than 0 on the unchanged tree is a false alarm (or a harness error) and is printed.
cd "$(dirname "$0")/.."
tier="${3:-quick}"
bad=0
for s in $(seq "$1" "$2"); do
  for p in C06 C07 C12 C15; do
    out=$(VERIF_SEED=$s ./vcheck $p --tier "$tier" --no-evidence 2>&1); code=$?
    echo "seed=$s $p exit=$code $(echo "$out" | grep -E "^C[0-9]+ (quick|thorough):" | cut -c1-160)"
    if [ $code -ne 0 ]; then bad=1; echo "$out" | grep -E "VIOLATION|sig=|HARNESS" | cut -c1-400 | head -6; fi
  done
done
exit $bad
