"""Run every property-preserving change under benign/ through tools/mutcheck.sh and record the outcome:
the quick check of its property must exit 0 on the patched tree (no VIOLATION, no HARNESS-ERROR)."""
import json, os, re, subprocess, sys, time
V = os.path.dirname(os.path.dirname(os.path.abspath(__file__)))
only = sys.argv[1:]
bad = 0
for name in sorted(os.listdir(os.path.join(V, "benign"))):
    d = os.path.join(V, "benign", name)
    if not os.path.isdir(d) or (only and name not in only):
        continue
    prop = name.split("-")[0]
    agent = json.load(open(os.path.join(d, "meta.agent.json")))
    t = time.time()
    p = subprocess.run([os.path.join(V, "tools", "mutcheck.sh"), os.path.join(d, "patch.diff"), prop],
                       capture_output=True, text=True)
    out = p.stdout
    m = re.search(r"== %s exit=(\d+)" % prop, out)
    code = int(m.group(1)) if m else None
    meta = {
        "property": prop, "title": agent.get("title"),
        "why_the_property_still_holds": agent.get("why_the_property_still_holds"),
        "written_by": "independent sub-agent given only the property text and its own worktree, asked for a "
                      "change that keeps the property",
        "what_i_ran": "tools/mutcheck.sh benign/%s/patch.diff %s (scratch worktree + patch, pinned suite, quick check "
                      "with SHROUD_REPO=<worktree>)" % (name, prop),
        "pinned_suite_with_patch": (re.search(r"(\d+ passed[^\n]*)", out) or [None, None])[1],
        "quick_check_exit": code, "false_alarm": code != 0,
        "signatures": sorted(set(re.findall(r"^  sig=(\S+)", out, re.M)))[:6],
        "patch_applies": "PATCH-DOES-NOT-APPLY" not in out, "wall_s": round(time.time() - t, 1),
    }
    json.dump(meta, open(os.path.join(d, "meta.json"), "w"), indent=1)
    bad += code != 0
    print(name, "quiet" if code == 0 else "ALARM exit=%s" % code, meta["signatures"][:2], flush=True)
sys.exit(1 if bad else 0)
