"""tools/regresscheck.py: every `fixed:` line of known_findings.txt names a commit and a replay file - the replay must
report the violation on the parent of that commit (scratch worktree) and nothing on the current tree; every
`known:` line's replay must still report its violation (with VERIF_IGNORE_KNOWN=1)."""
import os, re, subprocess, sys
V = os.path.dirname(os.path.dirname(os.path.abspath(__file__)))
bad = 0


def replay(prop, path, env=None):
    p = subprocess.run([os.path.join(V, "vcheck"), prop, "--replay", path], cwd=V, capture_output=True, text=True,
                       env=dict(os.environ, **(env or {})))
    return p.returncode, len(re.findall(r"^VIOLATION", p.stdout, re.M))


for line in open(os.path.join(V, "known_findings.txt")):
    m = re.match(r"(fixed|known): property=(C\d+) (\S+)", line)
    r = re.search(r"(regress/[A-Za-z0-9_.-]+\.json)", line)
    if not m or not r:
        continue
    kind, prop, third = m.groups()
    path = r.group(1)
    if kind == "fixed":
        wt = "/tmp/regresscheck-wt"
        subprocess.run(["git", "-C", "/repo", "worktree", "add", "-q", "--detach", wt, third + "~1"], check=True)
        try:
            c1, n1 = replay(prop, path, {"SHROUD_REPO": wt})
        finally:
            subprocess.run(["git", "-C", "/repo", "worktree", "remove", "--force", wt])
        c2, n2 = replay(prop, path)
        ok = n1 >= 1 and n2 == 0 and c2 == 0
        print("%-6s %s %s %-62s before-fix: %d violation(s), now: %d  %s" % (kind, prop, third, path, n1, n2,
                                                                             "ok" if ok else "PROBLEM"))
    else:
        c, n = replay(prop, path, {"VERIF_IGNORE_KNOWN": "1"})
        ok = n >= 1
        print("%-6s %s %-70s reproduces: %s  %s" % (kind, prop, path, n >= 1, "ok" if ok else "PROBLEM"))
    bad += not ok
sys.exit(1 if bad else 0)
