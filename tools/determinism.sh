#!/bin/bash
# tools/determinism.sh <PROP> [tier]  -- run a check twice with different worker counts and a different
# hash seed for the driver itself; the run digests (all per-history event-log digests) must be equal.
p="$1"; tier="${2:-quick}"
cd "$(dirname "$0")/.."
a=$(VERIF_WORKERS=16 PYTHONHASHSEED=1 ./vcheck "$p" --tier "$tier" >/dev/null 2>&1; python3 -c "import json;print(json.load(open('evidence/$p.json'))['coverage']['run_digest'])")
b=$(VERIF_WORKERS=5 PYTHONHASHSEED=987 ./vcheck "$p" --tier "$tier" >/dev/null 2>&1; python3 -c "import json;print(json.load(open('evidence/$p.json'))['coverage']['run_digest'])")
echo "$p $tier: $a $b"
[ "$a" = "$b" ] && echo "DETERMINISTIC" || { echo "DIVERGED"; exit 1; }
