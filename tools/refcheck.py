"""Golden sanity: corpus goldens vs regression/reference (informational)."""
import os, sys
sys.path.insert(0, os.path.dirname(os.path.dirname(os.path.abspath(__file__))))
from sim import jobs, campaign
from sim.seeds import Seeds

SNAP = os.path.join(os.path.dirname(os.path.abspath(__file__)), "corpus_digests.json")


def snapshot(update=False):
    """Compare the corpus goldens with the digests recorded in /verif (or record them).
    Upstream's regression/reference is stale for files changed by the fix: commits."""
    import hashlib, json
    S = Seeds(1)
    js = jobs.corpus_jobs()
    G = campaign.compute_goldens(js, S)
    cur = {}
    for j in js:
        g1 = G[j.id][0]
        cur[j.id] = {os.path.basename(p): hashlib.sha1(t.encode('latin-1')).hexdigest() for p, t in g1['files'].items()}
        cur[j.id]['#status'] = g1['status']
    if update:
        json.dump(cur, open(SNAP, 'w'), indent=0, sort_keys=True)
        print('recorded', len(cur), 'jobs')
        return 0
    old = json.load(open(SNAP))
    bad = 0
    for jid in sorted(cur):
        for f in sorted(set(cur[jid]) | set(old.get(jid, {}))):
            if cur[jid].get(f) != old.get(jid, {}).get(f):
                print(jid, 'differs from recorded snapshot:', f); bad += 1
    print('corpus jobs', len(cur), 'files differing from snapshot', bad)
    return 1 if bad else 0


def main():
    if '--snapshot' in sys.argv or '--update' in sys.argv:
        return snapshot('--update' in sys.argv)
    S = Seeds(1)
    js = jobs.corpus_jobs()
    G = campaign.compute_goldens(js, S)
    bad = 0
    for j in js:
        g1 = G[j.id][0]
        ref = os.path.join(jobs.REPO, 'regression', 'reference', j.id.split('/')[1])
        if g1['status'] != 'ok':
            print(j.id, g1['status'], g1['message'][:200]); bad += 1; continue
        for path, txt in g1['files'].items():
            rp = os.path.join(ref, os.path.basename(path))
            if not os.path.exists(rp):
                print(j.id, 'no reference for', os.path.basename(path)); bad += 1
            elif open(rp, 'rb').read() != txt.encode('latin-1'):
                print(j.id, 'differs from reference:', os.path.basename(path)); bad += 1
        for f in os.listdir(ref):
            if f != 'output' and os.path.isfile(os.path.join(ref, f)) and not any(os.path.basename(p) == f for p in g1['files']):
                print(j.id, 'reference file not produced:', f); bad += 1
    print('corpus jobs', len(js), 'mismatches', bad)
    return 1 if bad else 0

if __name__ == '__main__':
    sys.exit(main())
