"""Golden sanity: corpus goldens vs regression/reference (informational)."""
import os, sys
sys.path.insert(0, os.path.dirname(os.path.dirname(os.path.abspath(__file__))))
from sim import jobs, campaign
from sim.seeds import Seeds

def main():
    S = Seeds(1)
    js = jobs.corpus_jobs()
    G = campaign.compute_goldens(js, S)
    bad = 0
    for j in js:
        g1 = G[j.id][0]
        ref = os.path.join(jobs.REPO, 'regression', 'reference', j.id.split('/')[1])
        if g1['status'] != 'ok':
            print(j.id, g1['status'], g1['message'][:200]); bad += 1; continue
        for path, txt in g1['files'].items():
            rp = os.path.join(ref, os.path.basename(path))
            if not os.path.exists(rp):
                print(j.id, 'no reference for', os.path.basename(path)); bad += 1
            elif open(rp, 'rb').read() != txt.encode('latin-1'):
                print(j.id, 'differs from reference:', os.path.basename(path)); bad += 1
        for f in os.listdir(ref):
            if f != 'output' and os.path.isfile(os.path.join(ref, f)) and not any(os.path.basename(p) == f for p in g1['files']):
                print(j.id, 'reference file not produced:', f); bad += 1
    print('corpus jobs', len(js), 'mismatches', bad)
    return 1 if bad else 0

if __name__ == '__main__':
    sys.exit(main())
