#!/bin/bash
# tools/thorough_all.sh [seed]: the four thorough checks one after the other (exit status = worst)
cd "$(dirname "$0")/.."
seed="${1:-20260928}"
bad=0
for p in C07 C12 C15 C06; do
  out=$(./vcheck $p --tier thorough --no-evidence --seed "$seed" 2>&1); code=$?
  echo "seed=$seed $p exit=$code $(echo "$out" | grep -E "^C[0-9]+ (quick|thorough):" | cut -c1-200)"
  if [ $code -ne 0 ]; then bad=1; echo "$out" | grep -E "VIOLATION|sig=|HARNESS" | cut -c1-500 | head -12; fi
done
exit $bad
