#!/bin/bash
# tools/seedsweep1.sh <PROP> <first> <last>: one check under several seeds; replays of alarms are kept in ./replays
cd "$(dirname "$0")/.."
for s in $(seq "$2" "$3"); do
  out=$(VERIF_SEED=$s ./vcheck "$1" --tier quick --no-evidence 2>&1); code=$?
  echo "seed=$s $1 exit=$code $(echo "$out" | grep -E "^C[0-9]+ (quick|thorough):" | cut -c1-140)"
  if [ $code -ne 0 ]; then echo "$out" | grep -E "VIOLATION|sig=|HARNESS" | cut -c1-500 | head -8; fi
done
