#!/bin/bash
# tools/mutcheck.sh <patch.diff> <PROP> [<PROP>...]
# Applies a patch to a scratch worktree of /repo (outside /repo and /verif), runs the pinned test
# suite there, then runs the quick checks of the given properties against that tree
# (SHROUD_REPO=<worktree>), and removes the worktree.  Exit status: 0 if every listed check
# reported a VIOLATION (the change is caught), 1 otherwise.
set -u
here="$(cd "$(dirname "$0")/.." && pwd)"   # the /verif tree this script belongs to (may be a snapshot)
patch="$(readlink -f "$1")"; shift
wt="$(mktemp -d /tmp/vm-XXXXXX)"; rmdir "$wt"
git -C /repo worktree add -q --detach "$wt" HEAD || exit 3
trap 'git -C /repo worktree remove --force "$wt" >/dev/null 2>&1; rm -rf "$wt"' EXIT
git -C "$wt" apply "$patch" || { echo "PATCH-DOES-NOT-APPLY"; exit 3; }
( cd "$wt" && PYTHONPATH="$wt" timeout 900 /venv/bin/python -m pytest -q -p no:cacheprovider --timeout=900 --continue-on-collection-errors 2>&1 | tail -1 )
if [ -n "${MUT_DEMO:-}" ]; then
  # the demonstration that came with the change: must fail on the patched tree
  case "$MUT_DEMO" in
    *.sh) ( cd "$(dirname "$MUT_DEMO")" && timeout 600 bash "$MUT_DEMO" "$wt" >/dev/null 2>&1 ); echo "DEMO-PATCHED exit=$?" ;;
    *)    ( cd "$wt" && PYTHONPATH="$wt" timeout 600 /venv/bin/python "$MUT_DEMO" "$wt" >/dev/null 2>&1 ); echo "DEMO-PATCHED exit=$?" ;;
  esac
fi
rc=0
for p in "$@"; do
  out="$(cd "$here" && SHROUD_REPO="$wt" timeout 3000 ./vcheck "$p" --tier "${MUT_TIER:-quick}" --no-evidence ${MUT_ARGS:-} 2>&1)"
  code=$?
  echo "== $p exit=$code"
  echo "$out" | grep -E "^VIOLATION|^  sig=|HARNESS|^C[0-9]+ (quick|thorough):" | cut -c1-330 | head -12
  [ $code -eq 1 ] || rc=1
done
exit $rc
