#!/bin/bash
# tools/selfbreak.sh: sensitivity of the world-G pipelines.  The *seam* is made to misbehave the way a
# broken shroud would (VERIF_SELFBREAK, see sim/simfs.py:_selfbreak); every listed check must answer
# with exit 1 and a VIOLATION line.  (World R has its own oracle self-test inside every C06 run.)
cd "$(dirname "$0")/.."
bad=0
run() {  # <mode> <PROP>
  out=$(VERIF_SELFBREAK=$1 ./vcheck $2 --tier quick --no-evidence 2>&1); code=$?
  n=$(echo "$out" | grep -c "^VIOLATION")
  echo "selfbreak=$1 $2 exit=$code violations=$n $(echo "$out" | grep -m1 '^  sig=' | cut -c1-160)"
  [ $code -eq 1 ] && [ $n -gt 0 ] || bad=1
}
run hashseed C07
run state C07
run escape C15
run dropline C12
rm -rf replays/selfbreak-tmp
exit $bad
