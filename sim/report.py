"""Evidence files, known findings, replay files, exit protocol."""
import json
import os
import re
import sys
import time

VERIF = os.path.dirname(os.path.dirname(os.path.abspath(__file__)))
KNOWN = os.path.join(VERIF, "known_findings.txt")

EXIT_OK = 0
EXIT_VIOLATION = 1
EXIT_HARNESS = 3


def load_known(prop):
    """[(sig_regex, text)] for lines ``known: property=<prop> sig=<regex> <text>``.
    ``fixed:`` lines suppress nothing and are ignored here."""
    out = []
    if not os.path.exists(KNOWN) or os.environ.get("VERIF_IGNORE_KNOWN"):
        # VERIF_IGNORE_KNOWN=1: report recorded findings as violations (to regenerate their replays)
        return out
    with open(KNOWN) as fp:
        for line in fp:
            line = line.strip()
            m = re.match(r"known:\s+property=(\S+)\s+sig=(\S+)\s+(.*)$", line)
            if m and m.group(1) == prop:
                out.append((m.group(2), m.group(3)))
    return out


def match_known(known, sig):
    for rx, text in known:
        if re.fullmatch(rx, sig):
            return rx, text
    return None


def replay_path(prop, name):
    d = os.path.join(VERIF, "replays", prop)
    os.makedirs(d, exist_ok=True)
    return os.path.join(d, name + ".json")


def write_replay(prop, name, obj):
    p = replay_path(prop, name)
    with open(p, "w") as fp:
        json.dump(obj, fp, indent=1, sort_keys=True)
    return p


def write_evidence(prop, tier, seed, level, coverage, wall_s, violations, assumptions, extra=None):
    d = os.path.join(VERIF, "evidence")
    os.makedirs(d, exist_ok=True)
    ev = {"property_id": prop, "tier": tier, "seed": int(seed), "level": level,
          "coverage": coverage, "assumptions": assumptions, "wall_s": round(wall_s, 2),
          "violations": int(violations)}
    if extra:
        ev.update(extra)
    tmp = os.path.join(d, prop + ".json.tmp")
    with open(tmp, "w") as fp:
        json.dump(ev, fp, indent=1, sort_keys=True)
    os.replace(tmp, os.path.join(d, prop + ".json"))
    return ev


class Reporter(object):
    """Collects minimised violations; prints KNOWN-FINDING / VIOLATION lines."""

    def __init__(self, prop):
        self.prop = prop
        self.known = load_known(prop)
        self.known_hits = {}
        self.new = []

    def add(self, sig, replay_file, summary):
        hit = match_known(self.known, sig)
        if hit:
            self.known_hits.setdefault(hit[0], (hit[1], []))[1].append(sig)
            return "known"
        self.new.append((sig, replay_file, summary))
        return "new"

    def finish(self):
        for rx, (text, sigs) in sorted(self.known_hits.items()):
            print("KNOWN-FINDING: property=%s %s (sig=%s, %d occurrence(s))" % (
                self.prop, text, rx, len(sigs)))
        for sig, path, summary in self.new:
            print("VIOLATION property=%s replay=%s" % (self.prop, path))
            print("  sig=%s %s" % (sig, summary))
        sys.stdout.flush()
        return EXIT_VIOLATION if self.new else EXIT_OK
