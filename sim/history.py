"""Execution of one history (a list of ops) inside a host process.

Ops (JSON dicts):
  RUN    job, entry in {cli,args,api}, fault (FaultPlan json or null), judge (bool)
  POISON job (an invalid job; expected to end in an exception), entry
  DIRTY  how in {golden, junk}, src (job id whose golden files are planted),
         mutate in {asis, longer, shorter, garbage, empty}
  ENV    any of clock, host, user, pid, environ (dict; value null = unset), cwd
  FRESH  job : run in a new interpreter on a snapshot of the current SimFS
The judging rules are selected by spec["prop"].
"""
import json
import os
import subprocess
import sys

from . import host
from .simfs import SimFS, FaultPlan
from .seam import SimEnv
from .jobs import Job, file_kind

PY = sys.executable
HERE = os.path.dirname(os.path.abspath(__file__))


class Ctx(object):
    """Jobs and goldens available to a history."""

    def __init__(self, jobs, goldens):
        self.jobs = jobs  # jid -> Job
        self.goldens = goldens  # jid -> {"status","files":{path: latin-1}, ...}


def default_env():
    return SimEnv(clock=1.6e9, host="simhost", user="simuser", pid=4242,
                  environ={"HOME": "/sim/home", "LANG": "C.UTF-8", "PATH": "/usr/bin:/bin"})


def mutate_content(text, how):
    if how == "asis":
        return text
    if how == "longer":
        return text + "".join("// stale line %d from an older run\n" % i for i in range(40))
    if how == "shorter":
        return text[: len(text) // 2]
    if how == "empty":
        return ""
    if how == "garbage":
        return "\x00\x01garbage\r\n" * 7 + text[::-1][:200]
    raise ValueError(how)


def run_fresh(fs, env, job, hashseed, entry="cli"):
    spec = {"job": job.to_json(), "snapshot": fs.snapshot(), "env": env.to_json(),
            "entry": entry, "want_after": True}
    e = dict(os.environ)
    e["PYTHONHASHSEED"] = str(hashseed)
    p = subprocess.run([PY, os.path.join(HERE, "fresh.py")], input=json.dumps(spec),
                       capture_output=True, text=True, env=e, timeout=120)
    if p.returncode != 0:
        raise RuntimeError("fresh runner failed: " + p.stderr[-800:])
    return json.loads(p.stdout)


def judge_c07(getter, written_paths, escapes, golden):
    out = []
    gfiles = golden["files"]
    for p in sorted(gfiles):
        want = gfiles[p].encode("latin-1")
        have = getter(p)
        if have is None:
            out.append({"inv": "missing", "path": p, "kind": file_kind(p)})
        elif have != want:
            out.append({"inv": "differs", "path": p, "kind": file_kind(p),
                        "detail": host.first_diff(want, have)})
    for p in sorted(written_paths):
        if p not in gfiles:
            out.append({"inv": "extra", "path": p, "kind": file_kind(p)})
    for kind, p in escapes:
        if kind == "write":
            out.append({"inv": "escape", "path": p, "kind": file_kind(p)})
    return out


def stage_of(message):
    """Which part of shroud an aborted run died in (probe only)."""
    if "@" in message:
        return message.rsplit("@", 1)[1].split(":")[0]
    return "?"


def execute_history(spec, ctx, judges=None):
    host.setup_process()
    fs = SimFS()
    env = SimEnv.from_json(spec["env0"]) if spec.get("env0") else default_env()
    cwd_override = None
    result = {"hid": spec.get("hid"), "violations": [], "runs": [], "probes": {},
              "error": None}
    probes = result["probes"]
    event_lists = []
    ran_before = []

    def probe(name, n=1):
        probes[name] = probes.get(name, 0) + n

    for k, op in enumerate(spec["ops"]):
        kind = op["op"]
        if kind == "ENV":
            for key in ("clock", "host", "user", "pid"):
                if key in op:
                    setattr(env, key, op[key])
            for name, val in (op.get("environ") or {}).items():
                if val is None:
                    env.environ.pop(name, None)
                else:
                    env.environ[name] = val
            if "cwd" in op:
                cwd_override = op["cwd"]
            probe("env_op")
            event_lists.append([("ENV", json.dumps(op, sort_keys=True))])
            continue
        if kind == "DIRTY":
            planted = 0
            if op["how"] == "golden":
                g = ctx.goldens[op["src"]]
                for p, text in sorted(g["files"].items()):
                    fs.put(p, mutate_content(text, op.get("mutate", "asis")).encode("latin-1"))
                    planted += 1
            else:
                for p, text in sorted(op.get("files", {}).items()):
                    fs.put(p, text.encode("latin-1"))
                    planted += 1
            probe("dirty_files_planted", planted)
            event_lists.append([("DIRTY", op["how"], op.get("src"), op.get("mutate"), planted)])
            continue
        job = ctx.jobs[op["job"]]
        if cwd_override and job.meta.get("cwd_free"):
            job = job.clone(cwd=cwd_override)
            probe("run_in_other_cwd")
        golden = ctx.goldens.get(op["job"])
        pre = host.registry_digest()
        if kind == "FRESH":
            r = run_fresh(fs, env, job, op["hashseed"])
            after = r["after"]
            rec = {"op": k, "kind": kind, "job": job.id, "entry": "cli", "status": r["status"],
                   "pre": "fresh", "nops": r["trace"]["nops"], "faults_fired": []}
            result["runs"].append(rec)
            event_lists.append([("FRESH", job.id, r["status"],
                                 sorted(r["trace"]["written"].items()))])
            probe("fresh_runs")
            if r["status"] != "ok":
                result["violations"].append({"op_index": k, "job": job.id, "inv": "fails",
                                             "kind": "status", "path": "",
                                             "detail": r["message"][:300]})
                break
            vs = judge_c07(lambda p: after[p].encode("latin-1") if p in after else None,
                           r["trace"]["written"].keys(),
                           [tuple(x) for x in r["trace"]["escapes"]], golden)
            for v in vs:
                v.update(op_index=k, job=job.id)
            result["violations"].extend(vs)
            if vs:
                break
            continue
        # RUN / POISON
        fault = FaultPlan.from_json(op.get("fault"))
        entry = op.get("entry", "cli")
        # reach probes evaluated before the run
        if golden and golden.get("files"):
            for p, text in golden["files"].items():
                have = fs.files.get(p)
                if have is not None:
                    if len(have) > len(text):
                        probe("preexisting_longer")
                    elif len(have) < len(text):
                        probe("preexisting_shorter")
                    else:
                        probe("preexisting_samesize")
        status, message, trace = host.run_job(fs, env, job, entry, fault)
        event_lists.append(list(trace.events) + [("status", status)])
        rec = {"op": k, "kind": kind, "job": job.id, "entry": entry, "status": status,
               "pre": pre, "nops": trace.nops, "faults_fired": list(trace.faults_fired),
               "message": message[:300]}
        result["runs"].append(rec)
        probe("runs")
        probe("entry_" + entry)
        if ran_before:
            probe("run_with_predecessor")
            if job.id in ran_before:
                probe("rerun_same_job")
        if trace.faults_fired:
            for f in trace.faults_fired:
                probe("fault_fired_" + f)
        if status != "ok":
            probe("aborted_in_" + stage_of(message))
            if getattr(trace, "left_open", None) or any(e[0].startswith("late-") for e in trace.events):
                probe("abort_left_open_handles")
        if env.reads:
            for what, n in env.reads.items():
                probe("env_read_" + what, n)
            env.reads.clear()
        ran_before.append(job.id)
        if kind == "RUN" and op.get("judge", True) and fault is None:
            if status != "ok":
                result["violations"].append({"op_index": k, "job": job.id, "inv": "fails",
                                             "kind": "status", "path": "",
                                             "detail": message[:300], "entry": entry})
                break
            for judge in (judges or [DEFAULT_JUDGE]):
                vs = judge(fs, trace, job, golden, ctx)
                for v in vs:
                    v.update(op_index=k, job=job.id, entry=entry)
                result["violations"].extend(vs)
            if result["violations"]:
                break
    result["digest"] = host.events_digest(event_lists)
    result["nops"] = sum(r.get("nops", 0) for r in result["runs"])
    return result


def DEFAULT_JUDGE(fs, trace, job, golden, ctx):
    return judge_c07(fs.get, trace.written.keys(), trace.escapes, golden)


def execute_history_from_campaign(spec, camp):
    ctx = Ctx(camp["jobs"], camp["goldens"])
    return execute_history(spec, ctx)
