"""C15: wrapper selection is honoured and the file lists match what was written.

World G, same engine as C07.  Jobs come in *families*: one library under all
library-level flag vectors of the property's domain (Fortran only together with
C) and several assignments of the output-directory options, always with
--cfiles/--ffiles.  The SimFS trace tells which files *this run* wrote and
which emitter (innermost shroud module on the stack at open()) wrote each.
"""
import os
import posixpath
import re

import yaml

from . import gcheck, gen, jobs as J, pool, report, synth
from .jobs import Job, IN_DIR, OUT, WORK

LANGS = ("c", "fortran", "python", "lua")
EMITTER = {"c": "wrapc", "fortran": "wrapf", "python": "wrapp", "lua": "wrapl"}
DEFAULT_FLAGS = {"c": True, "fortran": True, "python": False, "lua": False}
# domain of the property: Fortran only together with C
CF_DOMAIN = [(True, True), (True, False), (False, False)]
FLAG_VECTORS = [(c, f, p, l) for (c, f) in CF_DOMAIN for p in (False, True) for l in (False, True)]


def _truth(v):
    if isinstance(v, str):
        return v in ("true", "True")
    return bool(v)


def nested_overrides(decls, acc):
    for d in decls or []:
        if not isinstance(d, dict):
            continue
        for k, v in (d.get("options") or {}).items():
            if k.startswith("wrap_") and k[5:] in LANGS:
                acc.setdefault(k[5:], set()).add(_truth(v))
        nested_overrides(d.get("declarations"), acc)
    return acc


def library_flags(yaml_text, argv):
    """Effective library-level flags and which languages a nested declaration turns on."""
    d = yaml.safe_load(yaml_text) or {}
    flags = dict(DEFAULT_FLAGS)
    for k, v in (d.get("options") or {}).items():
        if k.startswith("wrap_") and k[5:] in LANGS:
            flags[k[5:]] = _truth(v)
    for i, a in enumerate(argv):
        if a == "--option" and i + 1 < len(argv):
            k, _, v = argv[i + 1].partition("=")
            if k.startswith("wrap_") and k[5:] in LANGS:
                flags[k[5:]] = _truth(v)
    acc = nested_overrides(d.get("declarations"), {})
    nested_on = sorted(l for l, vals in acc.items() if True in vals)
    return flags, nested_on


def designated_dirs(argv, cwd):
    opt = {}
    for i, a in enumerate(argv):
        if a in ("--outdir", "--outdir-c-fortran", "--outdir-python", "--outdir-lua",
                 "--outdir-yaml", "--logdir", "--cfiles", "--ffiles") and i + 1 < len(argv):
            opt[a] = argv[i + 1]

    def nz(p):
        p = p or cwd
        if not p.startswith("/"):
            p = posixpath.join(cwd, p)
        return posixpath.normpath(p)

    out = opt.get("--outdir", "")
    return {
        "out": nz(out),
        "cf": nz(opt.get("--outdir-c-fortran") or out),
        "py": nz(opt.get("--outdir-python") or out),
        "lua": nz(opt.get("--outdir-lua") or out),
        "yaml": nz(opt.get("--outdir-yaml") or out),
        "log": nz(opt.get("--logdir", "")),
        "cfiles": nz(opt["--cfiles"]) if "--cfiles" in opt else None,
        "ffiles": nz(opt["--ffiles"]) if "--ffiles" in opt else None,
    }


# ------------------------------------------------------------------ judge (runs in the host child)
def judge_c15(fs, trace, job, golden, ctx):
    m = job.meta.get("c15")
    if not m:
        return []
    dirs = designated_dirs(job.argv, job.cwd)
    vs = []
    # "Written in this run" = part of this run's output.  A file the run left alone because it
    # already held exactly the bytes the run produces (skip-if-unchanged) counts, attributed to the
    # emitter that writes it in the job's own golden run.
    outw = dict(trace.written)
    emitter = dict(trace.emitter)
    if golden and golden.get("status") == "ok":
        gem = (golden.get("trace") or {}).get("emitter") or {}
        for p, text in golden.get("files", {}).items():
            if p not in outw:
                have = fs.get(p)
                if have is not None and bytes(have) == text.encode("latin-1"):
                    outw[p] = bytes(have)
                    emitter.setdefault(p, gem.get(p, "unknown"))
    by_emitter = {}
    for p in sorted(outw):
        tag = emitter.get(p, "unknown")
        by_emitter.setdefault(tag, []).append(p)
        d = posixpath.dirname(p)
        b = posixpath.basename(p)
        if tag in ("wrapc", "wrapf"):
            ok = d == dirs["cf"]
        elif tag == "wrapp":
            ok = d == dirs["py"] or (b == "setup.py" and d == dirs["out"])
        elif tag == "wrapl":
            ok = d == dirs["lua"]
        elif tag == "main":
            ok = (p in (dirs["cfiles"], dirs["ffiles"]) or d == dirs["log"]
                  or (d == dirs["yaml"] and b.endswith(".yaml")))
        else:
            ok = d in set(v for k, v in dirs.items() if v and k not in ("cfiles", "ffiles"))
        if not ok:
            vs.append({"inv": "I15.1-containment", "kind": tag, "path": p,
                       "detail": {"designated": dirs, "writer": trace.callers.get(p)}})
    for kind, p in trace.escapes:
        if kind == "write":
            vs.append({"inv": "I15.1-escape", "kind": "escape", "path": p})
    # I15.2 file lists
    for key, tag in (("cfiles", "wrapc"), ("ffiles", "wrapf")):
        lp = dirs[key]
        if not lp:
            continue
        written = sorted(by_emitter.get(tag, []))
        if lp not in outw:
            vs.append({"inv": "I15.2-list-not-written", "kind": key, "path": lp,
                       "detail": {"stale": fs.get(lp) is not None}})
            continue
        toks = outw[lp].decode("utf-8", "replace").split()
        ntoks = sorted(fs.norm(t) for t in toks)
        if len(set(ntoks)) != len(ntoks):
            vs.append({"inv": "I15.2-list-duplicates", "kind": key, "path": lp,
                       "detail": {"tokens": toks[:12]}})
        if sorted(set(ntoks)) != written:
            vs.append({"inv": "I15.2-list-mismatch", "kind": key, "path": lp,
                       "detail": {"listed_not_written": sorted(set(ntoks) - set(written))[:6],
                                  "written_not_listed": sorted(set(written) - set(ntoks))[:6]}})
    # I15.3 a language that is off for the whole library is silent
    flags = m["flags"]
    for lang in LANGS:
        if flags[lang] or lang in m.get("nested_on", []):
            continue
        if lang in ("c",) and flags["fortran"]:
            continue  # outside the domain
        files = by_emitter.get(EMITTER[lang], [])
        if files:
            vs.append({"inv": "I15.3-off-not-silent", "kind": lang, "path": files[0],
                       "detail": {"files": [posixpath.basename(f) for f in files][:8]}})
    if not flags["python"] and "python" not in m.get("nested_on", []):
        for p in outw:
            if posixpath.basename(p) == "setup.py":
                vs.append({"inv": "I15.3-off-not-silent", "kind": "python", "path": p})
    # setup.py names exactly the Python extension sources written in this run
    for p in outw:
        if posixpath.basename(p) == "setup.py" and emitter.get(p) == "wrapp":
            named = set(re.findall(r"'([^'/]+\.(?:c|cpp|cxx|cc))'", outw[p].decode("utf-8", "replace")))
            wrote = set(posixpath.basename(q) for q in by_emitter.get("wrapp", [])
                        if q.rsplit(".", 1)[-1] in ("c", "cpp", "cxx", "cc"))
            if named != wrote:
                vs.append({"inv": "I15.2-setup-sources", "kind": "python", "path": p,
                           "detail": {"named_not_written": sorted(named - wrote)[:6],
                                      "written_not_named": sorted(wrote - named)[:6]}})
    # I15.4 Python/Lua switches do not change a byte of the C and Fortran files
    ref = m.get("cf_ref")
    if ref and ref in ctx.goldens:
        g = ctx.goldens[ref]
        gcf = {p: t for p, t in g["files"].items() if g["trace"]["emitter"].get(p) in ("wrapc", "wrapf")}
        mine = {p: outw[p] for tag in ("wrapc", "wrapf") for p in by_emitter.get(tag, [])}
        for p in sorted(set(gcf) | set(mine)):
            a = gcf.get(p)
            b = mine.get(p)
            if a is None or b is None or a.encode("latin-1") != b:
                vs.append({"inv": "I15.4-interference", "kind": "c-fortran", "path": p,
                           "detail": {"ref": ref, "in_ref": a is not None, "in_run": b is not None}})
                break
    # I15.5 per-declaration selection
    toks = m.get("tokens") or {}
    if toks:
        text = {}
        for lang in LANGS:
            text[lang] = "\n".join(posixpath.basename(p) + "\n" + outw[p].decode("utf-8", "replace")
                                   for p in by_emitter.get(EMITTER[lang], [])).lower()
        # The Fortran module declares a bind(C) interface named c_<name> for every *C*
        # wrapper; that declaration belongs to the C wrapper.  A declaration "appears in the
        # Fortran output" when its name occurs as something else than a comment, a
        # bind(C, name=...) string or a c_* identifier (for simple functions the Fortran
        # wrapper *is* a bind(C) interface, but then under the Fortran name).
        text["fortran"] = fortran_wrapper_text(text["fortran"])
        for tok in sorted(toks):
            for lang in LANGS:
                want = toks[tok][lang]
                if want is None:
                    continue  # not asserted (Lua supports few argument kinds)
                have = tok.lower() in text[lang]
                if want != have:
                    vs.append({"inv": "I15.5-declaration-" + ("missing" if want else "present"),
                               "kind": lang, "path": "",
                               "detail": {"token": tok, "decl_flags": toks[tok], "shape": toks[tok].get("shape")}})
    return vs


def fortran_wrapper_text(text):
    out = []
    for line in text.split("\n"):
        st = line.strip()
        if st.startswith("!"):
            continue
        line = re.sub(r'bind\(c,\s*name="[^"]*"\)', "", line)
        line = re.sub(r"(?<![a-z0-9_])c_[a-z0-9_]*", "", line)
        out.append(line)
    return "\n".join(out)


def execute_history_c15(spec, camp):
    from . import history

    ctx = history.Ctx(camp["jobs"], camp["goldens"])
    return history.execute_history(spec, ctx, judges=[judge_c15])


# ------------------------------------------------------------------ token libraries (I15.5)
TOKEN_SHAPES = [
    ("plain", "void {t}(int arg)"),
    ("scalar", "double {t}(double a, int b)"),
    ("string", "void {t}(const std::string & name)"),
    ("strret", "const std::string {t}()"),
    ("default", "int {t}(int a = 1, int b = 2)"),
    ("ptrout", "void {t}(int *val +intent(out))"),
    ("vector", "int {t}(const std::vector<int> &arg)"),
    ("bool", "bool {t}(bool flag)"),
    ("array", "void {t}(const double *arr +rank(1), int n +implied(size(arr)))"),
    ("fntemplate", "template<typename T> void {t}(T arg)"),
]
LUA_OK = ("plain", "scalar", "bool", "default", "fntemplate")  # (return_this and overloads are not asserted for Lua)


def token_spec(rng, idx):
    """A library description whose functions carry unique names (tokens) and per-declaration
    wrap overrides; rendered later for each library-level (python, lua) pair."""
    lib = rng.choice(["toklib", "alpha"])
    (wc, wf) = rng.choice(CF_DOMAIN)
    entries = []
    counter = [0]

    def add_fn(indent, allow_overload=True):
        shape, pat = rng.choice(TOKEN_SHAPES)
        tok = "zq%dfn%dx" % (idx, counter[0])
        counter[0] += 1
        over = {}
        if rng.random() < 0.6:
            (oc, of) = rng.choice(CF_DOMAIN)
            cand = {"c": oc, "fortran": of}
            if rng.random() < 0.6:
                cand["python"] = rng.random() < 0.5
            if rng.random() < 0.5:
                cand["lua"] = rng.random() < 0.5
            over = {k: v for k, v in cand.items() if rng.random() < 0.8}
            if over.get("fortran") and "c" not in over and not wc:
                over["c"] = True
        entries.append({"kind": "fn", "indent": indent, "decl": pat.format(t=tok), "tok": tok, "shape": shape,
                        "over": over})
        if shape == "fntemplate":
            # every instantiation is a declaration generated from this one and inherits its flags
            entries[-1]["extra"] = ["cxx_template:", "- instantiation: <int>", "- instantiation: <double>"]
        if allow_overload and shape in ("plain", "scalar", "bool") and rng.random() < 0.3:
            # a C++ overload of the same name with its own flags
            over2 = {}
            if rng.random() < 0.7:
                (oc, of) = rng.choice(CF_DOMAIN)
                over2 = {"c": oc, "fortran": of}
                if rng.random() < 0.5:
                    over2["python"] = rng.random() < 0.5
            # (its first parameter has a name of its own: the only trace this signature leaves where the
            #  overloads share one name, as in the Lua dispatch function)
            if rng.random() < 0.6:
                over2["lua"] = rng.random() < 0.5
            argtok = "zp%dov%dq" % (idx, counter[0])  # (must not contain the function's own token)
            entries.append({"kind": "fn", "indent": indent, "decl": "void %s(double %s, int second)" % (tok, argtok),
                            "tok": tok, "shape": "overload", "over": over2, "argtok": argtok})

    def cont_over():
        # container-level override (class / namespace): inherited by the members
        if rng.random() < 0.5:
            return {}
        (oc, of) = rng.choice(CF_DOMAIN)
        over = {"c": oc, "fortran": of}
        if rng.random() < 0.4:
            over["python"] = rng.random() < 0.5
        if over.get("fortran") and not over.get("c"):
            over["c"] = True
        return over

    ncls = [0]

    def add_class(depth, template=False):
        """A class whose name is a token; constructor and destructor inherit the class' flags."""
        ind = "  " * (depth - 1)
        name = "Zq%dcl%s" % (idx, "abcd"[ncls[0] % 4])
        ncls[0] += 1
        entries.append({"kind": "cont", "what": "class", "indent": ind, "name": name, "over": cont_over(),
                        "depth": depth, "template": template})
        entries.append({"kind": "member", "indent": ind + "  ", "decl": "%s()" % name})
        entries.append({"kind": "member", "indent": ind + "  ", "decl": "~%s()" % name})
        for _ in range(rng.randint(1, 3)):
            add_fn(ind + "  ", allow_overload=False)
        if not template and rng.random() < 0.3:
            add_enum(ind + "  ")
        if not template and rng.random() < 0.35:
            # a data member: C and Fortran get accessor functions, Python a descriptor
            over = {}
            if rng.random() < 0.7:
                (oc, of) = rng.choice(CF_DOMAIN)
                over = {"c": oc, "fortran": of}
                if rng.random() < 0.5:
                    over["python"] = rng.random() < 0.5
                if over.get("fortran") and not over.get("c"):
                    over["c"] = True
            entries.append({"kind": "var", "indent": ind + "  ", "name": "zq%dmv%s" % (idx, "abcd"[ncls[0] % 4]),
                            "over": over})
        if not template and rng.random() < 0.4:
            # a method that returns "this" (documented field return_this: True)
            tok = "zq%dfn%dx" % (idx, counter[0])
            counter[0] += 1
            entries.append({"kind": "fn", "indent": ind + "  ", "decl": "%s * %s()" % (name, tok), "tok": tok,
                            "shape": "return_this", "over": {}, "extra": ["return_this: True"]})

    if rng.random() < 0.5:
        # a struct is a declaration too (bind(C) derived type in Fortran, struct in the C header)
        over = {}
        if rng.random() < 0.7:
            (oc, of) = rng.choice(CF_DOMAIN)
            over = {"c": oc, "fortran": of}
        entries.append({"kind": "struct", "indent": "", "name": "Zq%dsta" % idx, "over": over})
    def add_enum(indent):
        """An enumeration is a declaration too (C header, Fortran parameters, Python constants)."""
        over = {}
        if rng.random() < 0.7:
            (oc, of) = rng.choice(CF_DOMAIN)
            over = {"c": oc, "fortran": of}
            if rng.random() < 0.5:
                over["python"] = rng.random() < 0.5
            if over.get("fortran") and not over.get("c"):
                over["c"] = True
        name = "Zq%den%s" % (idx, "abcd"[nenum[0] % 4])
        nenum[0] += 1
        entries.append({"kind": "enum", "indent": indent, "name": name, "over": over})

    nenum = [0]
    if rng.random() < 0.5:
        add_enum("")
    for _ in range(rng.randint(2, 5)):
        add_fn("")
    if rng.random() < 0.4:
        # "block: True" groups declarations under common options; blocks nest
        entries.append({"kind": "cont", "what": "block", "indent": "", "name": "zq%dblka" % idx,
                        "over": cont_over() or {"python": False}, "depth": 1})
        add_fn("  ", allow_overload=False)
        if rng.random() < 0.7:
            entries.append({"kind": "cont", "what": "block", "indent": "  ", "name": "zq%dblkb" % idx,
                            "over": cont_over(), "depth": 2})
            for _ in range(rng.randint(1, 2)):
                add_fn("    ", allow_overload=False)
    if rng.random() < 0.6:
        add_class(1)
    if rng.random() < 0.3:
        add_class(1, template=True)
    if rng.random() < 0.35:
        # a namespace that holds nothing but an enumeration
        entries.append({"kind": "cont", "what": "namespace", "indent": "", "name": "zq%dnsc" % idx,
                        "over": cont_over(), "depth": 1})
        add_enum("  ")
    if rng.random() < 0.6:
        entries.append({"kind": "cont", "what": "namespace", "indent": "", "name": "zq%dnsa" % idx,
                        "over": cont_over(), "depth": 1})
        for _ in range(rng.randint(0, 2)):
            add_fn("  ", allow_overload=False)
        if rng.random() < 0.4:
            add_class(2)
        if rng.random() < 0.7:
            entries.append({"kind": "cont", "what": "namespace", "indent": "  ", "name": "zq%dnsb" % idx,
                            "over": cont_over(), "depth": 2})
            for _ in range(rng.randint(1, 2)):
                add_fn("    ", allow_overload=False)
    # the documented top-level "namespace:" field: every declaration lives in an initial namespace, and
    # wrapping starts below the library node (library.wrap_namespace)
    topns = "zq%dtop" % idx if rng.random() < 0.3 else None
    # options that make generated bookkeeping visible in the output (declaration indices in debug
    # comments) or make an emitter add declarations of its own (Python: a constructor for every struct)
    extra = {}
    if rng.random() < 0.4:
        extra["debug_index"] = True
    if rng.random() < 0.5:
        extra["PY_struct_arg"] = "class"
    return {"lib": lib, "c": wc, "fortran": wf, "entries": entries, "topns": topns, "extra_options": extra}


def render_token_library(spec, wp, wl):
    """Return (yaml text, library flags, tokens) or None if a declaration falls outside the domain."""
    lf = {"c": spec["c"], "fortran": spec["fortran"], "python": wp, "lua": wl}
    lines = list(synth.COPYRIGHT) + ["library: %s" % spec["lib"], "cxx_header: %s.hpp" % spec["lib"]]
    if spec.get("topns"):
        lines.append("namespace: %s" % spec["topns"])
    lines += ["options:", "  debug: True"]
    for k, v in sorted((spec.get("extra_options") or {}).items()):
        lines.append("  %s: %s" % (k, v))
    for lang in LANGS:
        lines.append("  wrap_%s: %s" % (lang, lf[lang]))
    lines.append("declarations:")
    tokens = {}
    on_langs = set()  # languages that some declaration (container or function) has switched on
    stack = []  # enclosing containers: (depth, name, effective defaults)
    for e in spec["entries"]:
        if e["kind"] == "cont":
            d = e["depth"]
            while stack and stack[-1][0] >= d:
                stack.pop()
            base = dict(stack[-1][2]) if stack else dict(lf)
            if e["what"] == "block":
                lines.append("%s- block: True" % e["indent"])
            elif e.get("template"):
                lines.append("%s- decl: template<typename T> class %s" % (e["indent"], e["name"]))
                lines.append("%s  cxx_template:" % e["indent"])
                lines.append("%s  - instantiation: <int>" % e["indent"])
                lines.append("%s  - instantiation: <double>" % e["indent"])
            else:
                lines.append("%s- decl: %s %s" % (e["indent"], e["what"], e["name"]))
            if e["over"]:
                lines.append("%s  options:" % e["indent"])
                for k in LANGS:
                    if k in e["over"]:
                        lines.append("%s    wrap_%s: %s" % (e["indent"], k, e["over"][k]))
                        base[k] = e["over"][k]
            lines.append("%s  declarations:" % e["indent"])
            # a nested container that is on for a language turns its enclosing containers on
            # (promotion), exactly like a wrapped member function does
            for (_d, outer_name, _b) in stack:
                t = tokens[outer_name]
                t["members"] += 1
                for l in LANGS:
                    t[l] = t[l] or bool(base[l])
            stack.append((d, e["name"], base))
            on_langs.update(l for l in LANGS if base[l])
            tokens[e["name"]] = {"c": bool(base["c"]), "fortran": bool(base["fortran"]), "python": bool(base["python"]),
                                 "lua": False, "shape": "class-template" if e.get("template") else e["what"],
                                 "lua_unsupported": True, "members": 0}
            continue
        if e["kind"] in ("enum", "var"):
            ind = e["indent"]
            depth = len(ind) // 2
            while stack and stack[-1][0] > depth:
                stack.pop()
            up = e["name"].upper()
            if e["kind"] == "var":
                lines.append("%s- decl: int %s" % (ind, e["name"]))
            else:
                lines.append("%s- decl: enum %s { %s_ONE, %s_TWO = 5 }" % (ind, e["name"], up, up))
            eff = dict(stack[-1][2]) if stack else dict(lf)
            if e["over"]:
                lines.append("%s  options:" % ind)
                for k in LANGS:
                    if k in e["over"]:
                        lines.append("%s    wrap_%s: %s" % (ind, k, e["over"][k]))
                        eff[k] = e["over"][k]
            if eff["fortran"] and not eff["c"]:
                return None
            tokens[e["name"]] = {"c": bool(eff["c"]), "fortran": bool(eff["fortran"]), "python": bool(eff["python"]),
                                 "lua": False, "shape": e["kind"], "lua_unsupported": True, "members": 1}
            on_langs.update(l for l in LANGS if eff[l] and l != "lua")
            for (_d, cname, _b) in stack:
                t = tokens[cname]
                t["members"] += 1
                for l in LANGS:
                    if l != "lua":
                        t[l] = t[l] or bool(eff[l])
            continue
        if e["kind"] == "struct":
            lines.append("- decl: struct %s {" % e["name"])
            lines += ["          int ifield;", "          double dfield;", "        };"]
            eff = dict(lf)
            if e["over"]:
                lines.append("  options:")
                for k in LANGS:
                    if k in e["over"]:
                        lines.append("    wrap_%s: %s" % (k, e["over"][k]))
                        eff[k] = e["over"][k]
            if eff["fortran"] and not eff["c"]:
                return None
            tokens[e["name"]] = {"c": bool(eff["c"]), "fortran": bool(eff["fortran"]), "python": True, "lua": True,
                                 "shape": "struct", "lua_unsupported": True, "members": 1}
            on_langs.update(l for l in LANGS if eff[l])
            continue
        ind = e["indent"]
        depth = len(ind) // 2
        while stack and stack[-1][0] > depth:
            stack.pop()
        if e["kind"] == "member":
            # constructor / destructor: no token of its own, inherits the class' flags
            lines.append("%s- decl: %s" % (ind, e["decl"]))
            eff = dict(stack[-1][2]) if stack else dict(lf)
            if eff["fortran"] and not eff["c"]:
                return None
            on_langs.update(l for l in LANGS if eff[l])
            for (_d, cname, _b) in stack:
                t = tokens[cname]
                t["members"] += 1
                for l in LANGS:
                    t[l] = t[l] or bool(eff[l])
            continue
        lines.append("%s- decl: %s" % (ind, e["decl"]))
        for x in e.get("extra", []):
            lines.append("%s  %s" % (ind, x))
        in_ns = [(x[0], x[1]) for x in stack]
        eff = dict(stack[-1][2]) if stack else dict(lf)
        if e["over"]:
            lines.append("%s  options:" % ind)
            for k in LANGS:
                if k in e["over"]:
                    lines.append("%s    wrap_%s: %s" % (ind, k, e["over"][k]))
                    eff[k] = e["over"][k]
        if eff["fortran"] and not eff["c"]:
            return None
        cur = tokens.get(e["tok"])
        if cur is None:
            cur = {l: False for l in LANGS}
            cur["shape"] = e["shape"]
            cur["lua_unsupported"] = False
            tokens[e["tok"]] = cur
        on_langs.update(l for l in LANGS if eff[l])
        for l in LANGS:
            cur[l] = cur[l] or bool(eff[l])  # a name appears if any of its overloads is wrapped
        for (_d, nsname) in in_ns:
            # a namespace appears in a language's output iff one of its members is wrapped there
            t = tokens[nsname]
            t["members"] += 1
            for l in LANGS:
                t[l] = t[l] or bool(eff[l])
        if e.get("argtok"):
            # a signature that is off for a language leaves no trace there (absence only: where and
            # whether parameter names of a wrapped signature show up is the emitter's business)
            tokens[e["argtok"]] = {l: (None if eff[l] else False) for l in LANGS}
            if eff["c"]:
                # the Fortran module declares the bind(C) interface of every C wrapper, dummy argument
                # names included: that block belongs to the C wrapper
                tokens[e["argtok"]]["fortran"] = None
            tokens[e["argtok"]].update(shape="overload-parameter", lua_unsupported=False)
        if e["shape"] not in LUA_OK:
            cur["lua_unsupported"] = True
        if e["shape"] == "overload":
            cur["shape"] = "overload"
    for name in [n for n, t in tokens.items() if t["shape"] in ("namespace", "class") and not t["members"]]:
        del tokens[name]
    for name in [n for n, t in tokens.items() if t["shape"] in ("class-template", "block")]:
        del tokens[name]  # (instantiations carry derived names, blocks have no name: only members are asserted)
    return "\n".join(lines) + "\n", lf, tokens, sorted(on_langs)


def token_jobs(seeds, n):
    """n token libraries, each rendered for the four library-level (python, lua) pairs; the four
    siblings form a family (C and Fortran files must be byte-identical among them)."""
    out = []
    k = 0
    made = 0
    while made < n and k < n * 8:
        rng = seeds.rng("c15tok", k)
        k += 1
        spec = token_spec(rng, k)
        rendered = {}
        for wp in (False, True):
            for wl in (False, True):
                rendered[(wp, wl)] = render_token_library(spec, wp, wl)
        if any(r is None for r in rendered.values()):
            continue
        dargv, mk, pat = pool.dir_pattern(rng)
        fam = "c15tok/%d-%s" % (made, spec["lib"])
        for (wp, wl), (text, lf, tokens, on_langs) in sorted(rendered.items()):
            toks = {}
            for t, eff in tokens.items():
                e = {l: bool(eff[l]) for l in LANGS}
                if eff["shape"] == "overload-parameter":
                    e = {l: eff[l] for l in LANGS}  # None = not asserted, False = must be absent
                e["shape"] = eff["shape"]
                if eff["shape"] in ("namespace", "class", "struct"):
                    # a namespace is a declaration too.  Only one direction is asserted: when it is off
                    # for a language itself and none of its members turns that language on, its name
                    # appears nowhere in that language's output (file names included).  What an "on"
                    # namespace without wrapped members produces differs per emitter and is not asserted.
                    for l in LANGS:
                        if e[l]:
                            e[l] = None
                    if eff["shape"] == "struct":
                        # only the Fortran side is asserted for a struct that is off for Fortran
                        e["c"] = e["python"] = e["lua"] = None
                    if eff["shape"] == "class":
                        # the C utility header declares the capsule struct of every class that any
                        # language wraps (the other emitters are built on it): not asserted for C
                        e["c"] = None
                if eff.get("lua_unsupported") or eff["shape"] == "overload":
                    e["lua"] = None  # Lua supports few argument kinds: not asserted
                if eff["shape"] == "strret" and e["c"] and not e["fortran"]:
                    # documented limitation, logged by shroud: a function returning a std::string
                    # instance gets no plain C wrapper, only the bufferify one made for Fortran
                    e["c"] = None
                toks[t] = e
            fname = IN_DIR + "/%s.yaml" % spec["lib"]
            argv = ["--path", IN_DIR] + dargv + ["--option", "debug_testsuite=true", "--nowrite-version",
                                                 "--cfiles", WORK + "/c.lst", "--ffiles", WORK + "/f.lst", fname]
            nested_on = list(on_langs)
            jid = "%s/%d%d" % (fam, int(wp), int(wl))
            meta = {"source": "c15tok", "cwd_free": False, "yaml": spec["lib"], "family": fam,
                    "c15": {"flags": lf, "nested_on": nested_on, "tokens": toks, "dirpat": pat,
                            "cf_ref": "%s/00" % fam}}
            out.append(Job(jid, {fname: text}, argv, sorted(set(mk + [WORK])), meta=meta))
        made += 1
    return out


def fix_token_meta(job):
    """None for Lua means 'not asserted'; the judge only compares booleans."""
    toks = job.meta["c15"]["tokens"]
    for t in list(toks):
        toks[t] = {k: v for k, v in toks[t].items()}
    return job


# ------------------------------------------------------------------ families
def family_jobs(seeds, nfam, bases, patterns=None, label="c15fam", round_robin=False):
    """bases: list of Jobs (corpus/synth) whose YAML is used."""
    out = []
    for i in range(nfam):
        rng = seeds.rng(label, i)
        base = bases[i % len(bases)] if (patterns or round_robin) else rng.choice(bases)
        pat = patterns[(i // len(bases)) % len(patterns)] if patterns else None
        dargv, mk, pat = pool.dir_pattern(rng, pat)
        ypath = [p for p in base.files if p.endswith("/" + base.meta["yaml"] + ".yaml")][0]
        # (list names: absolute, or relative to the directory the run starts in)
        lists = {"cfiles": rng.choice([OUT + "/cfiles.txt", WORK + "/c.lst", "c_rel.lst"]),
                 "ffiles": rng.choice([OUT + "/ffiles.txt", WORK + "/f.lst", "lists/f_rel.lst"])}
        mk = sorted(set(mk + [posixpath.dirname(p if p.startswith("/") else WORK + "/" + p) for p in lists.values()]
                        + [WORK]))
        fam = "%s/%d-%s-%s" % (label, i, base.id.split("/")[-1], pat)
        extra = []
        if rng.random() < 0.3:
            extra += ["--write-helpers", "helpers", "--write-statements", "statements"]
        if rng.random() < 0.2:
            extra += ["--yaml-types", "deftypes.yaml"]
        for vec in FLAG_VECTORS:
            argv = list(base.meta.get("cmdline", [])) + ["--path", IN_DIR] + dargv + [
                "--option", "debug_testsuite=true", "--nowrite-version"]
            for lang, v in zip(LANGS, vec):
                # both documented spellings of a boolean on the command line
                spell = (("true", "True"), ("false", "False"))[0 if v else 1][(i + len(lang)) % 2]
                argv += ["--option", "wrap_%s=%s" % (lang, spell)]
            argv += extra + ["--cfiles", lists["cfiles"], "--ffiles", lists["ffiles"], ypath]
            flags, nested_on = library_flags(base.files[ypath], argv)
            jid = "%s/%s" % (fam, "".join("1" if v else "0" for v in vec))
            ref = "%s/%s" % (fam, "".join("1" if v else "0" for v in (vec[0], vec[1], False, False)))
            meta = {"source": label, "yaml": base.meta["yaml"], "family": fam, "vec": list(vec),
                    "cwd_free": False,
                    "c15": {"flags": flags, "nested_on": nested_on, "dirpat": pat, "cf_ref": ref}}
            out.append(Job(jid, base.files, argv, mk, meta=meta))
    return out


class C15Gen(gen.HistoryGen):
    prop = "C15"

    def __init__(self, *a, **kw):
        self.families = kw.pop("families")
        self.others = kw.pop("others")
        gen.HistoryGen.__init__(self, *a, **kw)

    def history(self, i, with_faults=True):
        spec = gen.HistoryGen.history(self, i, with_faults)
        for k, o in enumerate(spec["ops"]):
            if o["op"] == "FRESH":
                spec["ops"][k] = {"op": "RUN", "job": o["job"], "entry": "cli", "judge": True}
        return spec

    def choose_pool(self, rng):
        fams = rng.sample(sorted(self.families), min(len(self.families), rng.randint(1, 2)))
        pool_ = []
        for f in fams:
            members = self.families[f]
            pool_ += rng.sample(members, min(len(members), rng.randint(2, 5)))
        if self.others and rng.random() < 0.6:
            pool_ += rng.sample(self.others, min(len(self.others), rng.randint(1, 2)))
        return pool_


class C15Engine(gcheck.GEngine):
    prop = "C15"
    executor = "sim.c15:execute_history_c15"

    TIER = {
        "quick": dict(nfam=14, ntok=14, nother=10, sweep_libs=2),
        "thorough": dict(nfam=90, ntok=160, nother=40, sweep_libs=8),
    }

    def build_pool(self):
        t = self.TIER[self.tier]
        corpus = J.corpus_jobs()
        sy = synth.synth_jobs(self.seeds, 40, label="c15synth")
        for j in sy:
            j.meta["cmdline"] = []
        rng = self.seeds.rng("c15bases")
        # feature-diverse corpus libraries first (namespaces -> several Fortran modules, templates,
        # strings/vectors -> utility file and bufferify variants, generic, structs, classes ...),
        # then randomly drawn ones, then synthetic libraries
        prio = ["namespace", "templates", "strings", "generic", "vectors", "struct-c", "classes", "ownership",
                "scope", "tutorial", "clibrary", "include", "forward", "example", "cdesc", "names"]
        byname = {j.id.split("/")[1]: j for j in corpus}
        ncorp = max(8, (t["nfam"] * 2) // 3)
        bases = [byname[n] for n in prio if n in byname][:ncorp]
        rest = [j for j in corpus if j not in bases]
        if len(bases) < ncorp:
            bases += rng.sample(rest, min(len(rest), ncorp - len(bases)))
        bases += rng.sample(sy, min(len(sy), max(2, t["nfam"] - len(bases))))
        # one family per base (round robin), so that every base is used
        fam = family_jobs(self.seeds, t["nfam"], bases, patterns=None, round_robin=True)
        # complete sweep: every flag vector of the domain x every directory pattern for a few libraries
        sweep_bases = [j for j in corpus if j.id in ("corpus/tutorial", "corpus/classes", "corpus/struct-c",
                                                     "corpus/strings", "corpus/vectors", "corpus/clibrary",
                                                     "corpus/ownership", "corpus/namespace")][: t["sweep_libs"]]
        pats = ["single", "distinct", "py_lua_shared", "nested", "cf_only", "no_outdir", "log_apart", "relative",
                "trailing_slash", "cwd_only"]
        sweep = family_jobs(self.seeds, len(sweep_bases) * len(pats), sweep_bases, patterns=pats,
                            label="c15sweep")
        self.sweep_space = len(sweep_bases) * len(pats) * len(FLAG_VECTORS)
        toks = token_jobs(self.seeds, t["ntok"])
        left = [j for j in corpus if j not in bases]
        others = rng.sample(left, min(len(left), t["nother"]))
        for j in others:
            j.meta["cwd_free"] = True
        poisons = pool.poison_jobs(self.seeds, 10, corpus)
        return fam + sweep + toks + others, poisons

    def admit(self):
        gcheck.GEngine.admit(self)
        self.golden_checked = 0
        self.sweep_done = 0
        self.families = {}
        self.others = []
        for jid in self.targets:
            fam = self.jobs[jid].meta.get("family")
            if fam:
                self.families.setdefault(fam, []).append(jid)
            else:
                self.others.append(jid)
        # I15.0: jobs that differ only in the assignment of the directory options: when one of them
        # runs, all of them must
        # (Whether a library can be wrapped for a language at all is not C15's business: only jobs with
        # the same library and the same flag vector are compared, i.e. the complete sweep.)
        self.family_failures = []

        def sweep_key(jid):
            parts = jid.split("/")
            if parts[0] != "c15sweep" or len(parts) != 3:
                return None
            base = parts[1].split("-", 1)[1].rsplit("-", 1)[0]
            return (base, parts[2])

        runs = {}
        for jid in self.targets:
            k = sweep_key(jid)
            if k:
                runs.setdefault(k, []).append(jid)
        for jid in self.poisons:
            k = sweep_key(jid)
            if k and runs.get(k) and jid in self.rejected_goldens:
                self.family_failures.append((self.jobs[jid], self.rejected_goldens[jid][0], len(runs[k])))
        # the invariants are first applied to every admitted job run alone
        if not self.args.admitted:
            self.check_goldens()

    def process_failures(self, reporter):
        gcheck.GEngine.process_failures(self, reporter)
        seen = set()
        for j, g1, nsib in getattr(self, "family_failures", []):
            m = j.meta.get("c15", {})
            sig = "I15.0-run-fails:%s:%s:%s" % (m.get("dirpat"), g1["status"], j.id.split("/")[0])
            if sig in seen:
                continue
            seen.add(sig)
            rp = report.write_replay(self.prop, "%s-runfails-%s" % (self.tier, gcheck.digest_obj(j.id)[:10]), {
                "property": self.prop, "seed": self.args.seed, "class": ["I15.0-run-fails", ""], "signature": sig,
                "must_succeed": True, "job": j.to_json(), "hashseed": self.seeds.hashseed("golden", j.id, 1),
                "status": g1["status"], "message": (g1.get("message") or "")[-400:],
                "siblings_that_run": nsib})
            reporter.add(sig, rp, "%s fails (%s) although %d jobs with the same library and flags, other "
                                  "directory options, run: %s" % (j.id, g1["status"], nsib,
                                                                  (g1.get("message") or "")[-160:]))

    def check_goldens(self):
        """Every admitted job's golden run must itself satisfy I15.1-I15.5; failures are turned
        into one-op histories so that they go through the same minimise/replay path."""
        specs = [{"prop": "C15", "round": -1, "index": i, "faulty": False,
                  "ops": [{"op": "RUN", "job": jid, "entry": "cli", "judge": True}]}
                 for i, jid in enumerate(self.targets)]
        from . import campaign
        results = campaign.run_round(specs, self.camp_path, self.seeds, 999, executor=self.executor,
                                     workers=self.args.workers)
        for spec, res in zip(specs, results):
            self.account(spec, res)
            self.golden_checked += 1
        sw = [jid for jid in self.targets if jid.startswith("c15sweep/")]
        self.sweep_done = len(sw)

    def make_gen(self, round_no):
        return C15Gen(self.seeds, self.targets, self.poisons, self.goldens, api_ok=[],
                      round_no=round_no, families=self.families, others=self.others)

    def signature(self, spec, res):
        v = res["violations"][0]
        shape = ">".join(o["op"] + ("!" if o.get("fault") else "") for o in spec["ops"])
        job = self.jobs.get(v["job"])
        m = (job.meta.get("c15") or {}) if job else {}
        extra = ""
        if v["inv"].startswith("I15.5"):
            d = v.get("detail", {})
            extra = "%s:%s" % (d.get("shape"), "".join(
                "1" if d.get("decl_flags", {}).get(l) else "0" for l in LANGS))
        elif v["inv"].startswith("I15.1"):
            extra = "%s:%s" % (posixpath.basename(v.get("path", "")).split(".")[-1], m.get("dirpat"))
        elif v["inv"].startswith("I15.3"):
            extra = "flags=" + "".join("1" if m.get("flags", {}).get(l) else "0" for l in LANGS)
        return "%s:%s:%s:%s" % (v["inv"], v["kind"], extra, shape)

    def expected_probes(self):
        return ["run_with_predecessor", "rerun_same_job", "preexisting_longer", "preexisting_shorter",
                "fault_fired_open_eacces", "fault_fired_write_enospc", "fault_fired_close_eio"]

    def coverage(self):
        cov = gcheck.GEngine.coverage(self)
        cov["rule"] = ("families = one library under all 12 library-level flag vectors of the domain x a "
                       "directory-option pattern, always with --cfiles/--ffiles; token libraries carry "
                       "per-declaration overrides.  Every admitted job is first judged alone, then inside "
                       "seeded histories over one persistent SimFS (flags and directories change between "
                       "consecutive runs, stale lists and older files are planted, predecessors abort). "
                       "non-trivial/distinct as for C07: (registry pre-state, job, faults, entry) with a "
                       "predecessor")
        cov["families"] = len(self.families)
        cov["flag_vectors_in_domain"] = len(FLAG_VECTORS)
        cov["complete_sweep"] = {"space": "libraries x 7 directory patterns x 12 flag vectors",
                                 "size": self.sweep_space, "admitted_and_judged": self.sweep_done,
                                 "exhaustive": self.sweep_done == self.sweep_space}
        cov["jobs_judged_alone"] = self.golden_checked
        return cov

    assumptions = gcheck.GEngine.assumptions + [
        "'C/C++ files' of --cfiles = files written by the C wrapper emitter (sources, headers, types*.h, util*); "
        "Python/Lua extension sources are not expected there",
        "the emitter of a file = innermost shroud module other than util on the stack when it is opened",
        "setup.py may be written to --outdir or to the Python directory (neither code nor docs pin it)",
        "library-level flags are computed by the harness from the YAML options block and --option arguments",
    ]


def main(argv):
    return C15Engine(gcheck.parse_args("C15", argv)).main()
