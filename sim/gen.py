"""Seeded generation of C07 / C15 histories (swarm style, coverage biased)."""
from .simfs import FaultPlan

HOSTS = ["simhost", "node0042", "buildbox.example.org", "x"]
USERS = ["simuser", "root", "ci", "alice"]
ENVVARS = ["HOME", "USER", "TZ", "LANG", "LC_ALL", "SOURCE_DATE_EPOCH", "HOSTNAME", "PWD",
           "PYTHONHASHSEED", "SHROUD_OPTS", "TMPDIR", "JUNK_%d"]
CWDS = ["/sim/work", "/sim/other/cwd", "/sim", "/sim/out"]


def env_op(rng):
    op = {"op": "ENV"}
    what = rng.sample(["clock", "host", "user", "pid", "environ", "cwd"], rng.randint(1, 3))
    if "clock" in what:
        op["clock"] = rng.choice([0.0, 9.4e8, 1.6e9, 1.6e9 + 86400 * 3653, 4.1e9]) + rng.random() * 1e5
    if "host" in what:
        op["host"] = rng.choice(HOSTS)
    if "user" in what:
        op["user"] = rng.choice(USERS)
    if "pid" in what:
        op["pid"] = rng.randint(2, 4000000)
    if "environ" in what:
        e = {}
        for name in rng.sample(ENVVARS, rng.randint(1, 4)):
            if "%d" in name:
                name = name % rng.randint(0, 99)
            e[name] = rng.choice([None, "", "1", "/sim/x", "UTC", "de_DE.UTF-8", "1234567890"])
        op["environ"] = e
    if "cwd" in what:
        op["cwd"] = rng.choice(CWDS)
    return op


def fault_plan(rng, golden_nops, kinds):
    kind = rng.choice(kinds)
    k = rng.randrange(max(1, golden_nops))
    return FaultPlan(kind, k, nbytes=rng.choice([0, 1, 17, 100, 4096])).to_json()


class HistoryGen(object):
    prop = "C07"

    def __init__(self, seeds, targets, poisons, goldens, api_ok=None, round_no=0):
        self.seeds = seeds
        self.targets = targets  # list of admitted job ids (sorted)
        self.poisons = poisons  # list of poison job ids
        self.goldens = goldens  # jid -> golden (for nops)
        self.api_ok = set(api_ok or [])
        self.round_no = round_no
        self.pairs_seen = set()

    def note_result(self, spec, result):
        prev = None
        for r in result.get("runs", []):
            if prev is not None:
                self.pairs_seen.add((prev, r["job"]))
            prev = r["job"]

    def choose_pool(self, rng):
        """3-6 jobs.  Four histories in ten are built around a *group* of related jobs -- the same
        YAML under other options / entry points, or libraries meant for the path-less programmatic
        entry -- because related jobs share input files, names and registry keys."""
        n = rng.randint(3, 6)
        groups = getattr(self, "groups", None)
        if groups and rng.random() < 0.4:
            key = rng.choice(sorted(groups))
            members = groups[key]
            take = rng.sample(members, min(len(members), rng.randint(2, 4)))
            rest = [j for j in self.targets if j not in take]
            return take + rng.sample(rest, min(len(rest), max(0, n - len(take))))
        return rng.sample(self.targets, min(len(self.targets), n))

    def pick(self, rng, pool, prev):
        if prev is not None and rng.random() < 0.6:
            fresh = [j for j in pool if (prev, j) not in self.pairs_seen]
            if fresh:
                return rng.choice(fresh)
        return rng.choice(pool)

    def history(self, i, with_faults=True):
        rng = self.seeds.rng("hist", self.round_no, i)
        pool = self.choose_pool(rng)
        # swarm: per-history feature switches
        use_env = rng.random() < 0.5
        use_dirty = rng.random() < 0.5
        use_fresh = rng.random() < 0.15
        use_poison = with_faults and self.poisons and rng.random() < 0.5
        fault_kinds = rng.sample(list(FaultPlan.KINDS), rng.randint(1, 4)) if (
            with_faults and rng.random() < 0.6) else []
        entries = rng.choice([["cli"], ["cli", "args"], ["cli", "args", "api"], ["api", "cli"],
                              ["args_reuse"], ["args_reuse", "cli"]])
        length = rng.randint(2, 8)
        ops = []
        prev = None
        nfault = 0
        while len(ops) < length - 1:
            x = rng.random()
            if use_env and x < 0.15:
                ops.append(env_op(rng))
            elif use_dirty and x < 0.30:
                ops.append({"op": "DIRTY", "how": "golden", "src": rng.choice(pool),
                            "mutate": rng.choice(["asis", "longer", "shorter", "garbage", "empty"])})
            elif use_poison and x < 0.40 and nfault < 2:
                ops.append({"op": "POISON", "job": rng.choice(self.poisons),
                            "entry": rng.choice(["cli", "args"])})
                nfault += 1
            elif fault_kinds and x < 0.52 and nfault < 2:
                jid = self.pick(rng, pool, prev)
                nops = self.goldens[jid]["trace"]["nops"]
                ops.append({"op": "RUN", "job": jid, "entry": "cli", "judge": False,
                            "fault": fault_plan(rng, nops, fault_kinds)})
                nfault += 1
                prev = jid
            elif use_fresh and x < 0.56:
                ops.append({"op": "FRESH", "job": rng.choice(pool),
                            "hashseed": rng.randint(1, 2 ** 31)})
            else:
                jid = self.pick(rng, pool, prev)
                ops.append(self.run_op(rng, jid, entries))
                prev = jid
        jid = self.pick(rng, pool, prev)
        ops.append(self.run_op(rng, jid, entries))
        return {"prop": self.prop, "round": self.round_no, "index": i, "ops": ops,
                "faulty": bool(nfault)}

    def run_op(self, rng, jid, entries):
        entry = rng.choice(entries)
        if jid.startswith("apinp/") and rng.random() < 0.7:
            entry = "api"  # these libraries exist for the path-less programmatic entry
        if entry == "api" and jid not in self.api_ok:
            entry = "cli"
        return {"op": "RUN", "job": jid, "entry": entry, "judge": True}
