"""Reference model and op generator of the wrapped-program world (C06).

The model is a small executable description of what the *documentation* says
happens to ownership: handle slots, capsule slots, the set of live subject
objects and who owns each, the caller-owned blocks handed out by the library.
For every op it predicts the returned value(s), the multiset of live object
values afterwards, the outstanding caller-owned handouts and the number of
wrapper-phase heap blocks that may survive the op.

Ops whose behaviour is undefined *for the user* are never generated: a method
call through a released or dangling handle, an explicit delete of a borrowed
(library-owned) object, a delete through a bit-copy after the original was
deleted.  Deleting through the *same* handle twice is generated and must be a
no-op.
"""
NH = 8  # item / box handle slots
NC = 4  # capsule slots


class Invalid(Exception):
    pass


def pattern(n):
    return "".join(chr(ord("a") + (i % 26)) for i in range(n))


REF_STRING = "reference-string"
LIB_STRING = "library-owned-string"
LIB_ARRAY = [60, 61, 62, 63, 64, 65]


def ftrim(s):
    return s.rstrip(" ")


def fpad(s, n):
    return s[:n].ljust(n)


class Model(object):
    def __init__(self, driver):
        self.driver = driver  # "f", "c", "py"
        self.h = [None] * NH  # handle: {"oid":…, "released": bool}
        self.bx = [None] * NH
        self.hi = [None] * NH  # Holder<int> / Holder<double>: two instantiations of one class template
        self.hd = [None] * NH
        self.bg = [None] * NH  # class Bag: constructor takes an array
        self.ar = [None] * NH  # Python: instances of the struct Arr {n, vals, name}
        self.caps = [None] * NC  # hand id or None
        self.objs = {}  # oid -> {"value", "alive", "owner"}
        self.next_oid = 1
        self.next_hand = 1
        self.hands = {}  # hand id -> kind (outstanding)
        self.lib_static = None
        self.lib_default = None
        self.reach = []

    # ---- helpers
    def new_obj(self, value, owner="caller", kind="item"):
        oid = self.next_oid
        self.next_oid += 1
        self.objs[oid] = {"value": value, "alive": True, "owner": owner, "kind": kind}
        return oid

    def live_values(self):
        return sorted(o["value"] for o in self.objs.values() if o["alive"])

    def handle(self, s, table=None):
        t = self.h if table is None else table
        if not (0 <= s < len(t)) or t[s] is None:
            raise Invalid("empty handle")
        return t[s]

    def usable(self, s, table=None):
        hd = self.handle(s, table)
        if hd is None:
            raise Invalid("empty handle")
        if hd["released"] or not self.objs[hd["oid"]]["alive"]:
            raise Invalid("released or dangling handle")
        return self.objs[hd["oid"]]

    def take_hand(self, kind):
        hid = self.next_hand
        self.next_hand += 1
        self.hands[hid] = kind
        return hid

    def expect(self, res=None):
        e = {"res": res, "live": self.live_values(),
             "hand": sorted("%d:%s" % (k, v) for k, v in self.hands.items()), "mem_live": 0}
        if self.reach:
            e["reach"] = self.reach
            self.reach = []
        return e

    def hit(self, what):
        """Reach probe: a rare but important situation was generated."""
        self.reach.append(what)

    # ---- ops
    def apply(self, op):
        name = op[0]
        a = op[1] if len(op) > 1 else 0
        b = op[2] if len(op) > 2 else 0
        text = op[3] if len(op) > 3 else ""
        if name.startswith("leak_"):
            return self.op_leak(name[5:], a, b, text)
        f = getattr(self, "op_" + name, None)
        if f is None:
            raise Invalid("unknown op " + name)
        return f(a, b, text)

    def put(self, table, s, hd):
        """Store a handle in a slot.  Python: the old reference is dropped, which may finalise
        the old object.  Fortran/C: a derived-type / struct assignment, the old object just
        becomes unreachable through this slot (a leak made by the user, not by a wrapper)."""
        old = table[s]
        table[s] = hd
        if self.driver == "py" and old is not None and old is not hd:
            self.py_unref(old)

    def py_unref(self, hd):
        if any(x is hd for t in (self.h, self.bx, self.hi, self.hd, self.bg) for x in t):
            return
        o = self.objs[hd["oid"]]
        if o["owner"] == "caller" and o["alive"]:
            self.hit("python_last_reference_dropped")
            o["alive"] = False  # last reference gone: the finaliser releases the instance
        elif o["owner"] != "caller":
            self.hit("python_borrowed_wrapper_dropped")

    def fresh(self, oid):
        return {"oid": oid, "released": False}

    def op_item_default(self, s, _b, _t):
        oid = self.new_obj(-1)
        self.objs[oid]["default_label"] = True
        self.put(self.h, s, self.fresh(oid))
        return self.expect(())

    def op_item_val(self, s, v, _t):
        self.put(self.h, s, self.fresh(self.new_obj(v)))
        return self.expect(())

    def op_item_delete(self, s, _b, _t):
        if self.driver == "py":
            if self.h[s] is not None:
                self.put(self.h, s, None)
            return self.expect(())
        hd = self.handle(s)
        if hd["released"]:
            self.hit("delete_again")
            return self.expect(())  # releasing an already released handle does nothing
        o = self.objs[hd["oid"]]
        if not o["alive"]:
            raise Invalid("delete through a dangling copy")
        if o["owner"] != "caller":
            raise Invalid("explicit delete of a library-owned object")
        o["alive"] = False
        hd["released"] = True
        return self.expect(())

    def op_item_release(self, s, _b, _t):
        """C only: release through the capsule ({addr, idtor}); honours the destructor index."""
        if self.driver != "c":
            raise Invalid("c only")
        hd = self.handle(s)
        if hd["released"]:
            self.hit("release_again")
            return self.expect(())
        o = self.objs[hd["oid"]]
        if not o["alive"]:
            raise Invalid("release through a dangling copy")
        if o["owner"] == "caller":
            o["alive"] = False
        else:
            self.hit("release_library_owned")
        hd["released"] = True  # addr is cleared either way
        return self.expect(())

    # ---- Bag
    def op_bag_new(self, s, n, _t):
        self.put(self.bg, s, self.fresh(self.new_obj(sum(range(1, n + 1)) + 9000 + n, kind="bag")))
        return self.expect(())

    def op_bag_total(self, s, _b, _t):
        return self.expect((self.usable(s, self.bg)["value"],))

    def op_bag_delete(self, s, _b, _t):
        if self.driver == "py":
            if self.bg[s] is not None:
                self.put(self.bg, s, None)
            return self.expect(())
        hd = self.handle(s, self.bg)
        if hd["released"]:
            return self.expect(())
        o = self.objs[hd["oid"]]
        if not o["alive"]:
            raise Invalid("dangling")
        o["alive"] = False
        hd["released"] = True
        return self.expect(())

    def op_bag_tmp(self, n, _b, _t):
        # Python: construct from a list, use, drop - in one op
        self.py_only()
        oid = self.new_obj(sum(range(1, n + 1)) + 9000 + n, kind="bag")
        self.objs[oid]["alive"] = False  # (the last reference is dropped inside the op)
        return self.expect((sum(range(1, n + 1)) + 9000 + n,))

    def op_bad_bag_new(self, _a, _b, _t):
        # Python: the constructor's list has a wrongly typed element: no instance, nothing left behind
        self.py_only()
        return self.expect(None)

    # ---- Holder<int>, Holder<double>
    def holder_table(self, k):
        return self.hi if k == "i" else self.hd

    def hold_new(self, k, s, v):
        self.put(self.holder_table(k), s, self.fresh(self.new_obj(v, kind="hold_" + k)))
        return self.expect(())

    def hold_get(self, k, s):
        return self.expect((self.usable(s, self.holder_table(k))["value"],))

    def hold_put(self, k, s, v):
        self.usable(s, self.holder_table(k))["value"] = v
        return self.expect(())

    def hold_delete(self, k, s, release=False):
        t = self.holder_table(k)
        if self.driver == "py":
            if release:
                raise Invalid("c only")
            if t[s] is not None:
                self.put(t, s, None)
            return self.expect(())
        if release and self.driver != "c":
            raise Invalid("c only")
        hd = self.handle(s, t)
        if hd["released"]:
            self.hit("holder_release_again")
            return self.expect(())
        o = self.objs[hd["oid"]]
        if not o["alive"]:
            raise Invalid("dangling")
        o["alive"] = False
        hd["released"] = True
        if release:
            self.hit("holder_released_through_capsule")
        return self.expect(())

    def op_hi_new(self, s, v, _t):
        return self.hold_new("i", s, v)

    def op_hd_new(self, s, v, _t):
        return self.hold_new("d", s, v)

    def op_hi_get(self, s, _b, _t):
        return self.hold_get("i", s)

    def op_hd_get(self, s, _b, _t):
        return self.hold_get("d", s)

    def op_hi_put(self, s, v, _t):
        return self.hold_put("i", s, v)

    def op_hd_put(self, s, v, _t):
        return self.hold_put("d", s, v)

    def op_hi_delete(self, s, _b, _t):
        return self.hold_delete("i", s)

    def op_hd_delete(self, s, _b, _t):
        return self.hold_delete("d", s)

    def op_hi_release(self, s, _b, _t):
        return self.hold_delete("i", s, release=True)

    def op_hd_release(self, s, _b, _t):
        return self.hold_delete("d", s, release=True)

    # ---- structs: plain data, nothing to own - except what the Python wrapper hangs on the members
    def op_pt_sum(self, x, _b, _t):
        return self.expect((x * 10 + int((x + 0.5) * 2),))

    def op_pt_out(self, x, _b, _t):
        return self.expect((x, int((x + 0.5) * 2)))

    def op_pt_scale(self, x, k, _t):
        return self.expect((x * k, int((x + 0.5) * k * 2)))

    def py_only(self):
        if self.driver != "py":
            raise Invalid("python only")

    def arr_struct(self, s):
        self.py_only()
        if self.ar[s] is None:
            raise Invalid("empty slot")
        return self.ar[s]

    def arr_total(self, a):
        vals = a["vals"] if a["vals"] is not None else []
        return sum(vals[:a["n"]]) + 1000 * (len(a["name"]) if a["name"] is not None else 77)

    def op_ar_new(self, s, n, _t):
        self.py_only()
        self.ar[s] = {"n": n, "vals": [7 * i for i in range(n)], "name": "nm%d" % n}
        return self.expect(())

    def op_ar_set_vals(self, s, n, _t):
        a = self.arr_struct(s)
        a["vals"] = [3 + i for i in range(n)]
        a["n"] = n
        self.hit("struct_member_array_replaced")
        return self.expect(())

    def op_ar_set_name(self, s, _b, text):
        a = self.arr_struct(s)
        a["name"] = text
        return self.expect(())

    def op_ar_bad_name(self, s, _b, _t):
        # a failed assignment (wrong type) leaves the member NULL; whatever was there is released once
        a = self.arr_struct(s)
        a["name"] = None
        self.hit("struct_member_assignment_failed")
        return self.expect(None)

    def op_ar_bad_vals(self, s, _b, _t):
        a = self.arr_struct(s)
        a["vals"] = None
        self.hit("struct_member_assignment_failed")
        return self.expect(None)

    def op_char_arr_two(self, n, ln, _t):
        self.py_only()
        def tot(k):
            return sum(((i - 1) % (ln + 1)) + 100 for i in range(1, k + 1))
        return self.expect((tot(n) * 3 + tot(max(0, n - 1)),))

    def op_bad_char_arr_two(self, _a, _b, _t):
        # the first list converts, the second has a wrongly typed item in the middle
        self.py_only()
        return self.expect(None)

    def op_arr_in_out(self, nin, n, _t):
        self.py_only()
        s = sum(range(1, nin + 1))
        return self.expect((n, int(sum(s + 0.5 * i for i in range(n)) * 2)))

    def op_bad_arr_in_out(self, _a, _b, _t):
        # the input array converts, the allocation of the output array fails
        self.py_only()
        return self.expect(None)

    # ---- struct with fixed-size array members (Python): a longer list is cut, a shorter one fills a prefix
    def op_rec_sum(self, n, t, _t):
        self.py_only()
        count = [0, 0, 0]
        for i, v in enumerate([1 + i for i in range(n)][:3]):
            count[i] = v
        w = [0.0, 0.0]
        for i, v in enumerate([0.5 * (1 + i) for i in range(n)][:2]):
            w[i] = v
        return self.expect((count[0] + 10 * count[1] + 100 * count[2] + 1000 * t + int(2 * (w[0] + w[1])) * 10000 + 7 * 1000000,))

    def op_ar_total(self, s, _b, _t):
        return self.expect((self.arr_total(self.arr_struct(s)),))

    def op_ar_get_vals(self, s, _b, _t):
        self.arr_struct(s)
        return self.expect(None)  # what the getter returns is C03's business

    def op_ar_get_name(self, s, _b, _t):
        self.arr_struct(s)
        return self.expect(None)

    def op_ar_drop(self, s, _b, _t):
        self.py_only()
        self.ar[s] = None
        return self.expect(())

    def op_ar_tmp(self, n, _b, _t):
        # an instance that lives only for one call
        self.py_only()
        return self.expect((sum(7 * i for i in range(n)) + 1000 * len("nm%d" % n),))

    def op_pt_tmp(self, x, _b, _t):
        self.py_only()
        return self.expect((x * 10 + int((x + 0.5) * 2),))

    # ---- plain C string API
    def op_cstr_ref(self, _a, _b, _t):
        return self.expect((len(REF_STRING), REF_STRING))

    def op_cstr_lib(self, _a, _b, _t):
        return self.expect((len(LIB_STRING), LIB_STRING))

    def op_cstr_owned(self, n, _b, _t):
        # caller-owned result: per the property it must be released once the caller is done with
        # it; the plain C API offers no way to do so (recorded finding), the model still says so
        hid = self.take_hand("string")
        del self.hands[hid]
        return self.expect((n, pattern(n)))

    def op_cstr_in(self, _a, _b, text):
        return self.expect((len(text) * 1000 + sum(ord(c) for c in text),))

    def op_cstr_out(self, _a, n, _t):
        return self.expect((n, pattern(n)))

    def op_cstr_inout(self, _a, _b, text):
        s = text + "+x"
        return self.expect((len(s), s))

    def op_item_value(self, s, _b, _t):
        return self.expect((self.usable(s)["value"],))

    def op_item_set(self, s, v, _t):
        o = self.usable(s)
        if o["owner"] != "caller":
            raise Invalid("keep library objects constant")
        o["value"] = v
        o["default_label"] = False
        return self.expect(())

    def op_item_label(self, s, _b, _t):
        o = self.usable(s)
        lab = "obj-default" if o.get("default_label") else "obj-%d" % o["value"]
        return self.expect((len(lab), lab))

    def op_item_twin(self, s, t, _t):
        o = self.usable(s)
        self.put(self.h, t, self.fresh(self.new_obj(o["value"] + 1000)))
        return self.expect(())

    def op_make_item(self, s, v, _t):
        self.put(self.h, s, self.fresh(self.new_obj(v)))
        return self.expect(())

    def op_borrow_item(self, s, _b, _t):
        if self.lib_static is None:
            self.lib_static = self.new_obj(7001, owner="library")
        self.put(self.h, s, self.fresh(self.lib_static))
        return self.expect(())

    def op_default_item(self, s, _b, _t):
        if self.lib_default is None:
            self.lib_default = self.new_obj(7002, owner="library")
        self.put(self.h, s, self.fresh(self.lib_default))
        return self.expect(())

    def op_copy_item(self, s, v, _t):
        self.put(self.h, s, self.fresh(self.new_obj(v)))
        return self.expect(())

    def op_use_item(self, s, _b, _t):
        return self.expect((self.usable(s)["value"] * 2,))

    def op_sum_items(self, s, t, _t):
        return self.expect((self.usable(s)["value"] + self.usable(t)["value"],))

    def op_item_combine(self, s, t, _t):
        return self.expect((self.usable(s)["value"] * 3 + self.usable(t)["value"],))

    def op_item_add_all(self, s, n, _t):
        return self.expect((self.usable(s)["value"] + sum(range(1, n + 1)),))

    def op_bad_item_add_all(self, s, _b, _t):
        # Python: a method call whose list argument has a wrongly typed element
        self.py_only()
        self.usable(s)
        return self.expect(None)

    def op_item_assoc(self, s, _b, _t):
        # Fortran: the generated `associated` method of the handle
        if self.driver != "f":
            raise Invalid("fortran only")
        hd = self.handle(s)
        return self.expect((0 if hd["released"] else 1,))

    def op_item_rebind(self, s, t, _t):
        """Fortran: call h(t)%set_instance(h(s)%get_instance()) - h(t) becomes a second view of the
        object of h(s).  Whatever h(t) referred to before is only forgotten, never released (the
        generated set_instance clears the destructor index); not generated when h(t) is the only
        handle of a live caller-owned object, where 'forget' and 'release first' are both defensible."""
        if self.driver != "f":
            raise Invalid("fortran only")
        if s == t:
            raise Invalid("self")
        hd = self.handle(s)
        if hd["released"] or not self.objs[hd["oid"]]["alive"]:
            raise Invalid("released or dangling handle")
        old = self.h[t]
        if old is not None and not old["released"]:
            o = self.objs[old["oid"]]
            if o["alive"] and o["owner"] == "caller":
                others = [x for i, x in enumerate(self.h)
                          if i != t and x is not None and x["oid"] == old["oid"] and not x["released"]]
                if not others:
                    raise Invalid("the only handle of an owned object")
                self.hit("set_instance_on_an_aliased_owning_handle")
        self.put(self.h, t, {"oid": hd["oid"], "released": False})
        return self.expect(())

    def op_arr_sum_d(self, n, _b, _t):
        return self.expect((int(sum(0.5 * i for i in range(1, n + 1)) * 2) + 1000 * n,))

    def op_bad_arr_sum_d(self, _a, _b, _t):
        self.py_only()
        return self.expect(None)

    def op_pass_item(self, s, _b, _t):
        # by-value argument: the wrapper passes a copy; the copy lives only during the call
        return self.expect((self.usable(s)["value"] + 5,))

    def op_vec_dot(self, a, b, _t):
        va = list(range(1, a + 1))
        vb = [2 * i for i in range(1, b + 1)]
        return self.expect((sum(x * y for x, y in zip(va, vb)) + 1000 * a + 10 * b,))

    def op_assign(self, s, t, _t):
        hd = self.handle(s)
        if self.driver == "py":
            self.put(self.h, t, hd)  # Python: the same object, one more reference
        else:
            self.put(self.h, t, dict(hd))  # Fortran/C: a bit copy of the handle
        return self.expect(())

    def op_make_box(self, s, v, _t):
        self.put(self.bx, s, self.fresh(self.new_obj(v, kind="box")))
        return self.expect(())

    def op_box_new(self, s, v, _t):
        self.put(self.bx, s, self.fresh(self.new_obj(v, kind="box")))
        return self.expect(())

    def op_box_delete(self, s, _b, _t):
        if self.driver != "py":
            raise Invalid("no way to release a Box from Fortran/C (destructor not wrapped)")
        if self.bx[s] is not None:
            self.put(self.bx, s, None)
        return self.expect(())

    # ---- Python fault ops: the call fails (or not); nothing may be leaked or destroyed
    def op_bad_vec_sum(self, _a, _b, _t):
        if self.driver != "py":
            raise Invalid("python only")
        return self.expect(None)

    def op_bad_arg(self, _a, _b, _t):
        if self.driver != "py":
            raise Invalid("python only")
        return self.expect(None)

    def op_leak(self, inner, a, b, text):
        """Python: repeat a call six times; heap growth and reference counts are judged.  The call
        must be idempotent for the model (doing it again changes nothing); its first application
        counts (a member may get a new value once)."""
        if self.driver != "py":
            raise Invalid("python only")
        import copy
        op = [inner, a, b] + ([text] if text else [])
        self.apply(op)  # must be valid ...
        def visible():
            # what a user can observe: slots, live objects, outstanding handouts (not the counters,
            # not objects that were created and destroyed inside the op)
            d = {k: v for k, v in self.__dict__.items() if k not in ("reach", "next_oid", "next_hand", "objs")}
            d["live_objs"] = {k: v for k, v in self.objs.items() if v["alive"]}
            return copy.deepcopy(d)
        once = visible()
        self.apply(op)
        if once != visible():
            raise Invalid("op is not idempotent")
        e = self.expect(None)
        e["grow_check"] = True
        return e

    def op_nomem(self, a, _b, _t):
        if self.driver != "py":
            raise Invalid("python only")
        # calls that hand out caller-owned memory consume a handout id when they get that far
        e = self.expect(None)
        e["hand_may_advance"] = True
        return e

    def op_box_value(self, s, _b, _t):
        return self.expect((self.usable(s, self.bx)["value"],))

    # ---- strings
    def op_str_ref(self, _a, _b, _t):
        return self.expect((len(REF_STRING), REF_STRING))

    def op_str_val(self, n, _b, _t):
        if n == 0:
            self.hit("string_zero_length")
        return self.expect((n, pattern(n)))

    def op_str_val2(self, n, _b, _t):
        return self.expect((n + 1, pattern(n) + "2"))

    def op_str_val3(self, n, _b, _t):
        return self.expect((n + 2, pattern(n) + "33"))

    def op_str_owned(self, n, _b, _t):
        # the library hands out a new std::string; the wrapper copies it and releases it
        hid = self.take_hand("string")
        del self.hands[hid]
        return self.expect((n, pattern(n)))

    def op_str_final(self, n, _b, _t):
        # new std::string copied into a character(30) result; the user's final clause deletes it
        n = min(max(n, 0), 60)
        hid = self.take_hand("string")
        del self.hands[hid]
        return self.expect((30, fpad(pattern(n), 30)))

    def op_str_lib(self, _a, _b, _t):
        return self.expect((len(LIB_STRING), LIB_STRING))

    def op_str_in(self, n, _b, text):
        s = ftrim(fpad(text, n)) if self.driver != "py" else text
        return self.expect((len(s) * 1000 + sum(ord(c) for c in s),))

    def op_str_count_char(self, n, _b, text):
        if self.driver != "f":
            raise Invalid("fortran only")
        s = ftrim(fpad(text, n))
        return self.expect((s.count("o") + 100 * len(s),))

    def op_arr_squares(self, n, _b, _t):
        if self.driver != "f":
            raise Invalid("fortran only")
        return self.expect((n, sum(i * i for i in range(n))))

    def op_str_ptr_in(self, n, _b, text):
        s = ftrim(fpad(text, n)) if self.driver != "py" else text
        return self.expect((len(s) * 1000 + sum(ord(c) for c in s) + 7,))

    def op_str_val_in(self, n, _b, text):
        s = ftrim(fpad(text, n)) if self.driver != "py" else text
        return self.expect((len(s) * 1000 + sum(ord(c) for c in s) + 9,))

    def op_char_ret_len(self, n, _b, _t):
        n = min(max(n, 0), 60)
        if self.driver == "py":
            return self.expect((n, pattern(n)))
        return self.expect((30, fpad(pattern(n), 30)))

    def op_char_ret_null(self, n, _b, _t):
        if n < 0:
            if self.driver == "py":
                return self.expect(None)  # None or "" -- C03's business
            return self.expect((0, ""))  # a NULL result becomes a zero-length string
        n = min(n, 60)
        return self.expect((n, pattern(n)))

    def op_vec_iota_d(self, n, _b, _t):
        got = [i + 0.5 for i in range(5)]
        arr = [-7.0] * n
        for i in range(min(n, 5)):
            arr[i] = got[i]
        return self.expect((n, int(sum(arr) * 2)))

    def op_box_release(self, s, _b, _t):
        """C only: release a Box through its capsule (the class has no wrapped destructor)."""
        if self.driver != "c":
            raise Invalid("c only")
        hd = self.handle(s, self.bx)
        if hd["released"]:
            return self.expect(())
        o = self.objs[hd["oid"]]
        if not o["alive"]:
            raise Invalid("dangling")
        if o["owner"] == "caller":
            o["alive"] = False
        hd["released"] = True
        return self.expect(())

    def op_str_out(self, cap, n, _t):
        if cap == n:
            self.hit("string_exact_fit")
        if n == 0 or cap == 0:
            self.hit("string_zero_length")
        if cap < n:
            self.hit("string_truncated")
        if self.driver == "py":
            return self.expect((n, pattern(n)))
        return self.expect((cap, fpad(pattern(n), cap)))

    def op_str_inout(self, cap, _b, text):
        if self.driver == "py":
            s = text + "+x"
            return self.expect((len(s), s))
        s = ftrim(fpad(text, cap)) + "+x"
        return self.expect((cap, fpad(s, cap)))

    def op_char_out(self, cap, _b, text):
        if self.driver == "py":
            return self.expect((len(text), text))
        if len(ftrim(text)) >= cap:
            raise Invalid("library would write past the caller's buffer (user contract)")
        return self.expect((cap, fpad(ftrim(text), cap)))

    def op_char_ret(self, n, _b, _t):
        n = min(n, 60)
        return self.expect((n, pattern(n)))

    def op_char_inout(self, cap, _b, text):
        if self.driver == "py":
            return self.expect((len(text), text.upper()))
        s = ftrim(fpad(text, cap)).upper()
        return self.expect((cap, fpad(s, cap)))

    # ---- vectors
    def op_vec_sum(self, n, _b, _t):
        return self.expect((sum(range(1, n + 1)) + 100000 * n,))

    def op_vec_iota(self, n, _b, _t):
        # the library produces 5 elements; Fortran/C copy min(n, 5) into the caller's array
        got = [i + 1 for i in range(5)]
        if self.driver == "py":
            return self.expect((5, sum(got)))
        arr = [-7] * n
        for i in range(min(n, 5)):
            arr[i] = got[i]
        return self.expect((n, sum(arr)))

    def op_vec_inc(self, n, _b, _t):
        arr = [10 * i + 1 for i in range(1, n + 1)]
        return self.expect((n, sum(arr)))

    def op_vec_alloc(self, n, _b, _t):
        return self.expect((n, sum(10 * i for i in range(n))))

    def op_vec_ret(self, n, _b, _t):
        return self.expect((n, sum(i * i for i in range(n))))

    def op_vec_str_count(self, n, ln, _t):
        tot = 0
        for i in range(1, n + 1):
            tot += ((i - 1) % (ln + 1)) + 100  # the first string is all blank
        return self.expect((tot,))

    # ---- arrays
    def op_arr_new(self, n, c, _t):
        if self.driver == "py":
            c = 0
            hid = self.take_hand("intarr")
            del self.hands[hid]  # converted to a list, released inside the call
            return self.expect((n, sum(500 + i for i in range(n))))
        old = self.caps[c]
        if old is not None and old in self.hands:
            self.hit("capsule_reused_while_owning")
            del self.hands[old]  # intent(out) capsule still owning memory: released first
        hid = self.take_hand("intarr")
        self.caps[c] = hid
        return self.expect((n, sum(500 + i for i in range(n))))

    def op_arr_lib(self, _a, _b, _t):
        return self.expect((6, sum(LIB_ARRAY)))

    def op_arr_new_alloc(self, n, _b, _t):
        hid = self.take_hand("dblarr")
        del self.hands[hid]  # copied into an allocatable / list and released inside the call
        if self.driver == "py":
            return self.expect(None)  # what Python returns here is C03's business
        return self.expect((n, int(sum(0.5 + i for i in range(n)) * 2)))

    def op_arr_pat(self, n, c, _t):
        if self.driver == "py":
            hid = self.take_hand("newarr")
            del self.hands[hid]
            return self.expect((n, sum(900 + i for i in range(n))))
        old = self.caps[c]
        if old is not None and old in self.hands:
            del self.hands[old]
        hid = self.take_hand("newarr")
        self.caps[c] = hid
        return self.expect((n, sum(900 + i for i in range(n))))

    def arr_out_arg(self, n, c, base):
        """Caller-owned memory handed back through an output argument ('int **' / 'int *&')."""
        if self.driver == "py":
            raise Invalid("not wrapped for python")
        if self.driver != "c":
            # Fortran: the documentation promises "an additional argument ... which is used to release
            # the memory"; the caller is done with the array at the end of the op, so per the property
            # it must have been released by then (recorded finding: no such argument is generated)
            hid = self.take_hand("intarr")
            del self.hands[hid]
            return self.expect((n, sum(base + i for i in range(n))))
        old = self.caps[c]
        if old is not None and old in self.hands:
            self.hit("capsule_reused_while_owning")
            del self.hands[old]
        hid = self.take_hand("intarr")
        self.caps[c] = hid
        self.hit("owned_memory_through_output_argument")
        return self.expect((n, sum(base + i for i in range(n))))

    def op_arr_pp(self, n, c, _t):
        return self.arr_out_arg(n, c, 700)

    def op_arr_gref(self, n, c, _t):
        return self.arr_out_arg(n, c, 800)

    def op_arr_fill_out(self, n, _b, _t):
        return self.expect((n + 1, int(sum(0.5 * i for i in range(n + 1)) * 2)))

    def op_arr_sum(self, n, _b, _t):
        return self.expect((sum(3 * i for i in range(1, n + 1)) + 1000000 * n,))

    def op_arr_weights(self, n, nw, _t):
        vals = [i + 1 for i in range(n)]
        w = [2 + j for j in range(nw)]
        out = [v * (w[i % nw] if nw else 1) for i, v in enumerate(vals)]
        return self.expect((n, sum(out)))

    def op_bad_arr_weights(self, _a, _b, _t):
        # Python: the first list converts, a later one does not: the wrapper leaves through fail:
        if self.driver != "py":
            raise Invalid("python only")
        return self.expect(None)

    def op_char_arr_none(self, n, ln, _t):
        # Python: None items become NULL pointers (which the library counts as 50)
        if self.driver != "py":
            raise Invalid("python only")
        tot = 0
        for i in range(1, n + 1):
            tot += 50 if (i + ln) % 3 == 0 else ((i - 1) % (ln + 1)) + 100
        if n:
            self.hit("char_array_with_none_items")
        return self.expect((tot,))

    def op_bad_char_arr(self, _a, _b, _t):
        # Python: an item in the middle of the list is not a string
        if self.driver != "py":
            raise Invalid("python only")
        return self.expect(None)

    def op_bad_arr_sum(self, _a, _b, _t):
        if self.driver != "py":
            raise Invalid("python only")
        return self.expect(None)

    def op_char_grow(self, cap, _b, text):
        if self.driver == "py":
            raise Invalid("the Python wrapper passes the str object's own buffer (see char_inout)")
        s = ftrim(fpad(text, cap))
        if len(s) + 2 > cap:
            raise Invalid("library would write past the declared length (user contract)")
        return self.expect((cap, fpad(s + "!!", cap)))

    def op_char_arr(self, n, ln, _t):
        tot = 0
        for i in range(1, n + 1):
            tot += ((i - 1) % (ln + 1)) + 100  # first string all blank; some last strings exactly full
        return self.expect((tot,))

    # ---- C subject: structs passed and returned by value / pointer (no ownership involved)
    def op_pair_sum(self, i, d, _t):
        return self.expect((i * 10 + d,))

    def op_pair_ptr(self, i, d, _t):
        return self.expect((i * 100 + d,))

    def op_pair_out(self, _a, _b, _t):
        return self.expect((7, 5))

    def op_pair_ret(self, i, d, _t):
        return self.expect((i, d * 2))

    def op_pair_ret_ptr(self, i, d, _t):
        return self.expect((i, d * 2))

    def op_ref_item(self, s, _b, _t):
        if self.lib_static is None:
            self.lib_static = self.new_obj(7001, owner="library")
        self.put(self.h, s, self.fresh(self.lib_static))
        return self.expect(())

    def op_vec_inout_alloc(self, n, _b, _t):
        arr = list(range(1, n + 1))
        arr = arr + [x + 100 for x in arr]
        return self.expect((len(arr), sum(arr)))

    def op_str_ptr_out(self, cap, n, _t):
        if self.driver == "py":
            return self.expect((n, pattern(n)))
        return self.expect((cap, fpad(pattern(n), cap)))

    def op_vec_ret_l(self, n, _b, _t):
        # a function inside a namespace whose std::vector<long> copy needs a destructor of its own
        return self.expect((n, sum(7 * i for i in range(n))))

    def op_vec_ret_d(self, n, _b, _t):
        return self.expect((n, int(sum(0.25 + i for i in range(n)) * 4)))

    def op_cap_delete(self, c, _b, _t):
        hid = self.caps[c]
        if hid is not None and hid in self.hands:
            del self.hands[hid]
        elif hid is not None:
            self.hit("capsule_delete_again")
        else:
            self.hit("capsule_delete_empty")
        return self.expect(())  # deleting an empty / already released capsule does nothing

    def op_cap_scope(self, n, _b, _t):
        hid = self.take_hand("intarr")
        del self.hands[hid]  # local capsule finalised at scope exit
        return self.expect((n, sum(500 + i for i in range(n))))


# ------------------------------------------------------------------ generation
OPS_COMMON = ["item_default", "item_val", "item_delete", "item_value", "item_set", "item_label", "item_twin",
              "make_item", "borrow_item", "default_item", "copy_item", "use_item", "sum_items", "assign",
              "make_box", "box_new", "box_value",
              "hi_new", "hd_new", "hi_get", "hd_get", "hi_put", "hd_put", "hi_delete", "hd_delete", "arr_weights",
              "pt_sum", "pt_out", "pt_scale", "str_final", "item_add_all", "arr_sum_d",
              "bag_new", "bag_total", "bag_delete",
              "str_ref", "str_val", "str_val2", "str_val3", "str_owned", "str_lib", "str_in", "str_out", "str_inout",
              "char_out", "char_ret", "char_inout",
              "vec_sum", "vec_iota", "vec_inc", "vec_alloc", "vec_ret", "vec_str_count",
              "arr_new", "arr_lib", "arr_new_alloc", "cap_delete", "cap_scope",
              "arr_pat", "arr_pp", "arr_gref", "arr_sum", "char_grow", "ref_item", "vec_ret_d", "char_arr",
              "str_ptr_in", "str_val_in", "char_ret_len", "char_ret_null", "vec_iota_d", "arr_fill_out", "vec_ret_l", "vec_inout_alloc", "str_ptr_out", "item_combine", "pass_item", "vec_dot"]

TEXTS = ["", " ", "a", "hello", "two words", "  lead", "trail  ", "exactly-twenty-chars", "x" * 40,
         "MiXeD 123 !?", "tab-less ~ text", "ends with blank "]


def lengths(rng):
    return rng.choice([0, 0, 1, 2, 3, 5, 8, 13, 15, 16, 17, 20, 31, 32, 40])


def gen_op(rng, model, enabled, uniq):
    """Draw one op that is valid in the current model state (or None)."""
    name = rng.choice(enabled)
    if name.startswith("leak_"):
        inner = gen_op(rng, model, [name[5:]], uniq)
        if inner is not None and inner[0] != name[5:]:
            return inner  # a preparing op was drawn instead (e.g. create the instance first)
        return None if inner is None else ["leak_" + inner[0]] + inner[1:]
    hot = getattr(model, "hot_slots", None)
    if hot and rng.random() < 0.8:
        # locality: most ops of a sequence work on a few slots, so that handles meet again
        s = rng.choice(hot)
        t = rng.choice(hot)
    else:
        s = rng.randrange(NH)
        t = rng.randrange(NH)
    if name in ("item_val", "make_item", "copy_item", "item_set", "make_box", "box_new", "hi_new", "hd_new",
                "hi_put", "hd_put"):
        return [name, s, uniq()]
    if name in ("cstr_ref", "cstr_lib"):
        return [name]
    if name == "cstr_owned":
        return [name, lengths(rng)]
    if name in ("cstr_in", "cstr_inout"):
        return [name, 0, 0, rng.choice(TEXTS)]
    if name == "cstr_out":
        return [name, 0, lengths(rng)]
    if name in ("item_default", "borrow_item", "default_item", "item_delete", "item_value", "item_label",
                "use_item", "box_value", "item_release", "ref_item", "hi_get", "hd_get", "hi_delete", "hd_delete",
                "hi_release", "hd_release"):
        return [name, s]
    if name == "vec_dot":
        return [name, lengths(rng), lengths(rng)]
    if name in ("pass_item", "item_assoc"):
        return [name, s]
    if name == "item_add_all":
        return [name, s, lengths(rng)]
    if name == "bad_item_add_all":
        return [name, s, rng.randrange(12)]
    if name == "arr_sum_d":
        return [name, lengths(rng)]
    if name == "bad_arr_sum_d":
        return [name, rng.choice([1, 3, 6]), rng.randrange(12)]
    if name in ("item_twin", "sum_items", "assign", "item_combine", "item_rebind"):
        return [name, s, t]
    if name in ("str_ref", "str_lib", "arr_lib"):
        return [name]
    if name in ("vec_sum", "arr_sum"):
        return [name, lengths(rng), rng.randrange(4)]  # second argument: kind of Python sequence
    if name in ("str_val", "str_val2", "str_val3", "str_owned", "char_ret", "vec_iota", "vec_inc", "vec_alloc", "vec_ret",
                "arr_new_alloc", "cap_scope", "vec_ret_d", "vec_ret_l"):
        return [name, lengths(rng)]
    if name == "char_ret_null":
        return [name, rng.choice([-1, -1, 0, 3, 17])]
    if name in ("char_ret_len", "str_final"):
        return [name, rng.choice([0, 1, 7, 29, 30, 31, 45, 60])]
    if name == "arr_fill_out":
        return [name, rng.choice([0, 1, 2, 5, 16])]
    if name in ("vec_sum", "arr_sum"):
        return [name, lengths(rng), rng.randrange(4)]
    if name == "vec_iota_d":
        return [name, lengths(rng)]
    if name == "box_release":
        return [name, s]
    if name == "arr_squares":
        return [name, lengths(rng)]
    if name in ("str_in", "str_ptr_in", "str_val_in", "str_count_char"):
        text = rng.choice(TEXTS)
        return [name, rng.choice([len(text), len(text) + 3, max(0, len(text) - 2), lengths(rng)]), 0, text]
    if name == "vec_inout_alloc":
        return [name, lengths(rng)]
    if name in ("str_out", "str_ptr_out"):
        n = lengths(rng)
        return [name, rng.choice([n, n + 1, max(0, n - 1), lengths(rng)]), n]
    if name in ("str_inout", "char_inout"):
        text = rng.choice(TEXTS)
        return [name, rng.choice([len(text) + 2, len(text), len(text) + 7, max(0, len(text) - 1)]), 0, text]
    if name == "char_out":
        text = rng.choice([x for x in TEXTS if len(x) <= 19])
        return [name, rng.choice([len(text) + 1, len(text) + 2, 20, 21, 33]), 0, text]
    if name == "arr_weights":
        return [name, lengths(rng), rng.choice([0, 1, 2, 3, 7])]
    if name in ("pt_sum", "pt_out", "pt_tmp"):
        return [name, rng.randrange(100)]
    if name == "pt_scale":
        return [name, rng.randrange(100), rng.randrange(5)]
    if name.startswith("ar_") and name not in ("ar_new", "ar_tmp"):
        # struct-instance ops go to a slot that holds one (or make one first)
        full = [i for i, x in enumerate(model.ar) if x is not None]
        if not full:
            return ["ar_new", s, rng.choice([0, 1, 2, 5, 16, 40])]
        s = rng.choice(full)
    if name == "bag_new":
        return [name, s, rng.choice([0, 1, 2, 5, 16])]
    if name in ("bag_total", "bag_delete"):
        full = [i for i, x in enumerate(model.bg) if x is not None]
        if not full:
            return ["bag_new", s, rng.choice([0, 1, 2, 5, 16])]
        return [name, rng.choice(full)]
    if name == "bag_tmp":
        return [name, rng.choice([0, 1, 2, 5, 16])]
    if name == "bad_bag_new":
        return [name, rng.choice([1, 3, 6]), rng.randrange(12)]
    if name in ("ar_new", "ar_set_vals"):
        return [name, s, rng.choice([0, 1, 2, 5, 16, 40])]
    if name == "ar_set_name":
        return [name, s, 0, rng.choice([t for t in TEXTS if t])]
    if name in ("ar_total", "ar_get_vals", "ar_get_name", "ar_drop", "ar_bad_name"):
        return [name, s]
    if name == "ar_bad_vals":
        return [name, s, rng.randrange(12)]
    if name in ("char_arr_two", "bad_char_arr_two"):
        return [name, rng.choice([1, 2, 3, 6]), rng.choice([1, 2, 4, 9])]
    if name == "rec_sum":
        return [name, rng.choice([0, 1, 2, 3, 4, 7, 12]), rng.randrange(9)]
    if name == "arr_in_out":
        return [name, rng.choice([0, 1, 5, 16]), rng.choice([0, 1, 2, 7])]
    if name == "bad_arr_in_out":
        return [name, rng.choice([1, 5, 16, 40])]
    if name == "ar_tmp":
        return [name, rng.choice([0, 1, 2, 5, 16, 40])]
    if name == "bad_char_arr":
        return [name, rng.choice([1, 2, 3, 6, 9]), rng.randrange(12)]
    if name == "bad_arr_weights":
        return [name, rng.choice([0, 1, 3, 6, 40]), rng.randrange(12)]
    if name == "char_arr_none":
        return [name, rng.choice([0, 1, 2, 3, 6, 9]), rng.choice([1, 2, 4, 9])]
    if name == "char_arr":
        return [name, rng.choice([0, 1, 2, 3, 6]), rng.choice([1, 2, 4, 9])]
    if name in ("pair_sum", "pair_ptr", "pair_ret", "pair_ret_ptr"):
        return [name, rng.randrange(50), rng.randrange(9)]
    if name == "pair_out":
        return [name]
    if name == "vec_str_count":
        return [name, rng.choice([0, 1, 2, 5]), rng.choice([1, 3, 8])]
    if name in ("arr_new", "arr_pat", "arr_pp", "arr_gref"):
        return [name, lengths(rng), rng.randrange(NC)]
    if name == "char_grow":
        text = rng.choice(TEXTS)
        n = len(text.rstrip(" "))
        return [name, rng.choice([n + 2, n + 3, n + 9, max(0, n)]), 0, text]
    if name == "bad_arr_sum":
        return [name, rng.choice([0, 1, 3, 6]), rng.randrange(12)]
    if name == "cap_delete":
        return [name, rng.randrange(NC)]
    if name == "box_delete":
        return [name, s]
    if name == "bad_vec_sum":
        return [name, rng.choice([0, 1, 3, 6]), rng.randrange(12)]
    if name == "bad_arg":
        return [name, rng.randrange(12), rng.randrange(6)]
    if name == "nomem":
        return [name, rng.randrange(14), rng.choice([0, 0, 1, 1, 2, 3, 4, 6, 9])]
    return None


LEAKABLE = ["item_value", "item_label", "use_item", "sum_items", "item_combine", "vec_dot", "box_value", "str_ref", "str_val", "str_val2", "str_val3", "str_lib",
            "str_in", "str_ptr_in", "str_val_in", "char_ret_len", "str_out", "str_inout", "char_out", "char_ret", "vec_sum", "vec_iota", "vec_alloc", "vec_ret",
            "arr_lib", "arr_sum", "arr_fill_out", "char_arr", "bad_vec_sum", "bad_arg", "bad_arr_sum",
            "hi_get", "hd_get", "arr_weights", "bad_arr_weights", "char_arr_none", "bad_char_arr",
            "pt_sum", "pt_out", "pt_scale", "pt_tmp", "ar_tmp", "ar_total", "ar_get_vals", "ar_get_name", "ar_set_vals",
            "ar_set_name", "ar_bad_name", "ar_bad_vals", "char_arr_two", "bad_char_arr_two", "arr_in_out", "bad_arr_in_out",
            "item_add_all", "bad_item_add_all", "arr_sum_d", "bad_arr_sum_d", "bag_total", "bag_tmp", "bad_bag_new",
            "rec_sum"]
PY_ONLY = ["box_delete", "bad_vec_sum", "bad_arg", "nomem", "bad_arr_sum", "bad_arr_weights", "char_arr_none", "bad_char_arr",
           "ar_new", "ar_set_vals", "ar_set_name", "ar_total", "ar_get_vals", "ar_get_name", "ar_drop", "ar_tmp", "pt_tmp",
           "ar_bad_name", "ar_bad_vals", "char_arr_two", "bad_char_arr_two", "arr_in_out", "bad_arr_in_out",
           "bad_item_add_all", "bad_arr_sum_d", "bag_tmp", "bad_bag_new", "rec_sum"] + ["leak_" + n for n in LEAKABLE]
# char_inout: the Python wrapper hands the str object's own UTF-8 buffer to the library, which
# upper-cases it in place and thereby corrupts interned strings of the interpreter (a C03 defect;
# it would make later *values* wrong, so the op is not generated for Python)
NOT_PY = ["arr_pp", "arr_gref", "str_final", "copy_item", "vec_inc", "vec_str_count", "cap_delete", "cap_scope", "char_inout", "char_grow", "vec_ret_d", "vec_iota_d", "vec_ret_l", "vec_inout_alloc", "pass_item"]


F_ONLY = ["item_assoc", "item_rebind", "str_count_char", "arr_squares"]
C_ONLY = ["item_release", "box_release", "hi_release", "hd_release", "cstr_ref", "cstr_lib", "cstr_owned", "cstr_in", "cstr_out", "cstr_inout"]


C_SUBJECT_OPS = ["char_out", "char_ret", "char_ret_len", "char_inout", "char_grow", "char_arr", "arr_lib"]
PAIR_OPS = ["pair_sum", "pair_ptr", "pair_out", "pair_ret", "pair_ret_ptr"]


# declarations of the C++ subject an op needs (subset variants wrap only some of them)
_ITEM = ("Item",)
OP_NEEDS = {
    "make_item": ("Item", "makeItem"), "borrow_item": ("Item", "borrowItem"), "default_item": ("Item", "defaultItem"),
    "copy_item": ("Item", "copyItem"), "use_item": ("Item", "useItem"), "sum_items": ("Item", "sumItems"),
    "pass_item": ("Item", "passItem"), "ref_item": ("Item", "refItem"),
    "make_box": ("Box", "makeBox"), "box_new": ("Box",), "box_value": ("Box",), "box_delete": ("Box",),
    "box_release": ("Box",),
    "str_val2": ("strVal2",), "str_val3": ("strVal3",),
    "str_ref": ("strRef",), "str_val": ("strVal",), "str_owned": ("strOwned",), "str_lib": ("strLib",),
    "str_in": ("strIn",), "str_count_char": ("strCountChar",), "arr_squares": ("arrSquares",), "str_out": ("strOut",), "str_inout": ("strInout",), "char_out": ("charOut",),
    "char_ret": ("charRet",), "char_inout": ("charInout",), "vec_sum": ("vecSum",), "vec_iota": ("vecIota",),
    "vec_inc": ("vecInc",), "vec_alloc": ("vecAlloc",), "vec_ret": ("vecRet",), "vec_str_count": ("vecStrCount",),
    "arr_new": ("arrNew",), "arr_lib": ("arrLib",), "arr_new_alloc": ("arrNewAlloc",), "cap_delete": ("arrNew",),
    "cap_scope": ("arrNew",), "arr_pat": ("arrNew", "arrNewPat"), "arr_pp": ("arrFillPtr",), "arr_gref": ("arrGrabRef",), "arr_sum": ("arrSum",), "char_grow": ("charGrow",),
    "vec_ret_d": ("vecRetD",), "char_arr": ("charArrLen",), "str_ptr_in": ("strPtrIn",), "str_val_in": ("strValIn",),
    "char_ret_len": ("charRetLen",), "char_ret_null": ("charRetNull",), "vec_iota_d": ("vecIotaD",),
    "arr_fill_out": ("arrFillOut",), "vec_ret_l": ("deep",), "vec_inout_alloc": ("vecInoutAlloc",),
    "str_ptr_out": ("strPtrOut",), "vec_dot": ("vecDot",), "arr_weights": ("arrWeights",),
    "cstr_ref": ("strRef",), "cstr_lib": ("strLib",), "cstr_owned": ("strOwned",), "cstr_in": ("strIn",),
    "cstr_out": ("strOut",), "cstr_inout": ("strInout",),
    "bad_vec_sum": ("vecSum",), "bad_arr_sum": ("arrSum",), "bad_arr_weights": ("arrWeights",),
    "char_arr_none": ("charArrLen",),
    "str_final": ("strFinal",), "bad_char_arr": ("charArrLen",),
    "pt_sum": ("Pt", "ptSum"), "pt_out": ("Pt", "ptOut"), "pt_scale": ("Pt", "ptScale"), "pt_tmp": ("Pt", "ptSum"),
    # these call a fixed list of a dozen functions: only where the whole library is wrapped
    "bad_arg": ("*",), "nomem": ("*",),
}
for _n in ("item_default", "item_val", "item_delete", "item_value", "item_set", "item_label", "item_twin", "assign",
           "item_release", "item_combine"):
    OP_NEEDS[_n] = _ITEM
for _n in ("bag_new", "bag_total", "bag_delete", "bag_tmp", "bad_bag_new"):
    OP_NEEDS[_n] = ("Bag",)
OP_NEEDS["rec_sum"] = ("Rec", "recSum")
OP_NEEDS["item_add_all"] = OP_NEEDS["bad_item_add_all"] = OP_NEEDS["item_assoc"] = OP_NEEDS["item_rebind"] = ("Item",)
OP_NEEDS["arr_sum_d"] = OP_NEEDS["bad_arr_sum_d"] = ("arrSumD",)
OP_NEEDS["char_arr_two"] = OP_NEEDS["bad_char_arr_two"] = ("charArrTwo",)
OP_NEEDS["arr_in_out"] = OP_NEEDS["bad_arr_in_out"] = ("arrInOut",)
for _n in ("ar_new", "ar_set_vals", "ar_set_name", "ar_total", "ar_get_vals", "ar_get_name", "ar_drop", "ar_tmp",
           "ar_bad_name", "ar_bad_vals"):
    OP_NEEDS[_n] = ("Arr", "arrTotal")
for _n in ("new", "get", "put", "delete", "release"):
    OP_NEEDS["hi_" + _n] = OP_NEEDS["hd_" + _n] = ("Holder",)


def available(op, have):
    """have: None (the whole subject is wrapped) or the set of wrapped declaration names."""
    if have is None:
        return True
    inner = op[5:] if op.startswith("leak_") else op
    return all(n in have for n in OP_NEEDS.get(inner, ("?",)))


def ops_for(driver, have=None):
    if driver == "cc":
        return list(C_SUBJECT_OPS)
    if driver == "fc":
        return list(C_SUBJECT_OPS) + ["arr_sum"] + PAIR_OPS
    if driver == "py":
        ops = [o for o in OPS_COMMON if o not in NOT_PY] + PY_ONLY
    elif driver == "c":
        ops = list(OPS_COMMON) + C_ONLY
    else:
        ops = list(OPS_COMMON) + F_ONLY
    return [o for o in ops if available(o, have)]


def targeted_op(rng, m, enabled, uniq):
    """An op aimed at the current ownership state: release again what was just released, reuse a
    capsule that still owns memory, use and release live handles, drop shared references ..."""
    cands = []
    for s, hd in enumerate(m.h):
        if hd is None:
            continue
        o = m.objs[hd["oid"]]
        if hd["released"]:
            cands += [["item_delete", s], ["item_release", s], ["make_item", s, uniq()], ["borrow_item", s],
                      ["item_assoc", s]]
        elif o["alive"]:
            cands += [["item_delete", s], ["item_release", s], ["item_value", s], ["item_label", s],
                      ["use_item", s], ["pass_item", s], ["item_add_all", s, lengths(rng)], ["item_assoc", s],
                      ["bad_item_add_all", s, rng.randrange(12)], ["item_twin", s, rng.randrange(NH)],
                      ["assign", s, rng.randrange(NH)], ["item_rebind", s, rng.randrange(NH)], ["item_combine", s, s], ["sum_items", s, s],
                      ["item_set", s, uniq()], ["copy_item", s, uniq()], ["default_item", s], ["ref_item", s]]
    for s, hd in enumerate(m.bx):
        if hd is not None:
            cands += [["box_value", s], ["box_delete", s], ["box_release", s], ["make_box", s, uniq()]]
    for s, hd in enumerate(m.bg):
        if hd is not None:
            cands += [["bag_delete", s], ["bag_total", s]] if not hd["released"] else [["bag_delete", s]]
    for k, t in (("hi", m.hi), ("hd", m.hd)):
        for s, hd in enumerate(t):
            if hd is not None:
                cands += [[k + "_delete", s], [k + "_release", s]]
                if not hd["released"]:
                    cands += [[k + "_get", s], [k + "_put", s, uniq()]]
    for s, a in enumerate(m.ar):
        if a is not None:
            cands += [["ar_set_vals", s, rng.choice([0, 1, 5, 16])], ["ar_total", s], ["ar_get_vals", s],
                      ["ar_set_name", s, 0, rng.choice(["a", "hello", "two words"])], ["ar_drop", s], ["ar_get_name", s],
                      ["ar_bad_name", s], ["ar_bad_vals", s, rng.randrange(12)],
                      ["ar_set_name", s, 0, rng.choice(["a", "hello", "two words"])]]
    for c, hid in enumerate(m.caps):
        if hid is not None:
            cands += [["cap_delete", c], ["cap_delete", c], ["arr_new", lengths(rng), c], ["arr_pat", lengths(rng), c],
                      ["arr_pp", lengths(rng), c], ["arr_gref", lengths(rng), c]]
    cands = [c for c in cands if c[0] in enabled]
    return rng.choice(cands) if cands else None


def gen_sequence(rng, driver, length, enabled=None, have=None):
    """A valid op sequence and the model's expectations."""
    enabled = enabled or ops_for(driver, have)
    m = Model(driver)
    m.hot_slots = rng.sample(range(NH), rng.choice([1, 2, 2, 3]))
    # handle ops are always available to the targeted draws, whatever the swarm subset is
    core = [o for o in ops_for(driver, have) if o in ("item_delete", "item_release", "cap_delete", "box_delete",
                                                 "box_release", "make_item", "item_val", "arr_new", "arr_pat", "arr_pp", "arr_gref",
                                                 "hi_new", "hd_new", "hi_delete", "hd_delete", "hi_release", "hd_release",
                                                 "ar_new", "ar_set_vals", "ar_total", "ar_drop")]
    counter = [0]

    def uniq():
        counter[0] += 1
        return 100 + counter[0]

    ops, exps = [], []
    tries = 0
    while len(ops) < length and tries < length * 30:
        tries += 1
        op = None
        if rng.random() < 0.35:
            op = targeted_op(rng, m, list(enabled) + core, uniq)
        if op is None:
            op = gen_op(rng, m, enabled, uniq)
        if op is None:
            continue
        import copy

        snap = copy.deepcopy(m.__dict__)
        try:
            e = m.apply(op)
        except Invalid:
            m.__dict__.update(snap)
            continue
        ops.append(op)
        exps.append(e)
    return ops, exps


def expectations(driver, ops):
    """Re-run the model over an explicit op list (replay / minimisation); None if invalid."""
    m = Model(driver)
    exps = []
    try:
        for op in ops:
            exps.append(m.apply(op))
    except Invalid:
        return None
    return exps


def final_cleanup_ops(driver, ops):
    """Ops that release everything the model says the caller still owns (for the exit check)."""
    m = Model(driver)
    for op in ops:
        m.apply(op)
    out = []
    seen = set()
    for s, hd in enumerate(m.h):
        if hd and not hd["released"]:
            o = m.objs[hd["oid"]]
            if o["alive"] and o["owner"] == "caller" and o["kind"] == "item" and hd["oid"] not in seen:
                seen.add(hd["oid"])
                out.append(["item_delete", s])
    for k, t in (("hi", m.hi), ("hd", m.hd), ("bag", m.bg)):
        for s, hd in enumerate(t):
            if hd and not hd["released"] and m.objs[hd["oid"]]["alive"] and hd["oid"] not in seen:
                seen.add(hd["oid"])
                out.append([k + "_delete", s])
    for c, hid in enumerate(m.caps):
        if hid is not None and hid in m.hands:
            out.append(["cap_delete", c])
    return out
