"""The simulated host: one Python interpreter that imports shroud once and then
processes a history of operations against SimFS / SimEnv.

Everything in this module runs inside a child process of a host factory (or
inside a fresh interpreter for goldens / FRESH ops).
"""
import gc
import hashlib
import io
import json
import os
import sys
import traceback

from . import seam
from .simfs import SimFS, FaultPlan
from .seam import SimEnv
from .jobs import Job, file_kind

REPO = os.environ.get("SHROUD_REPO", "/repo")

_shroud = None
_reuse = {"live": None, "parsed": None}  # entry "args_reuse": the caller's long-lived Namespace


def setup_process():
    """Install the seams, then import shroud from the current working tree."""
    global _shroud
    if _shroud is not None:
        return _shroud
    seam.install()
    if REPO not in sys.path[:1]:
        sys.path.insert(0, REPO)
    first = os.environ.get("VERIF_PATH_FIRST")
    if first and first not in sys.path[:1]:
        sys.path.insert(0, first)  # an unrelated directory ahead of the tree (see campaign.ENV_B)
    import shroud  # noqa
    import shroud.main  # noqa

    here = os.path.realpath(os.path.dirname(shroud.__file__))
    want = os.path.realpath(os.path.join(REPO, "shroud"))
    if here != want:
        raise RuntimeError("shroud imported from %s, expected %s" % (here, want))
    _shroud = shroud
    return shroud


# ------------------------------------------------------------------ registries
def registry_digest():
    """Digest of the process-global registries, read from outside.

    Used only as a reach measure (distinct pre-states).  Any name that has
    disappeared after a refactor is skipped.
    """
    parts = []
    try:
        from shroud import typemap

        parts.append("T:" + ",".join(sorted(typemap.shared_typedict.keys())))
    except Exception:
        pass
    try:
        from shroud import statements

        langs = []
        for item in statements.fc_statements:
            for clause in ("pre_call", "post_call", "cxx_local_var", "declare"):
                if clause in item:
                    for lang in ("c", "cxx"):
                        if item.get(lang + "_" + clause) is item[clause]:
                            langs.append("%s:%s=%s" % (item.get("name"), clause, lang))
        parts.append("S:" + ",".join(langs))
        parts.append("CF:%d" % len(statements.cf_tree))
    except Exception:
        pass
    try:
        from shroud import whelpers

        parts.append("CH:" + ",".join(sorted(whelpers.CHelpers.keys())))
        parts.append("FH:" + ",".join(sorted(whelpers.FHelpers.keys())))
    except Exception:
        pass
    try:
        from shroud import wrapc, wrapp

        parts.append("CC:" + ",".join(getattr(wrapc.Wrapc, "capsule_order", [])))
        parts.append("PC:" + ",".join(getattr(wrapp.Wrapp, "capsule_order", [])))
    except Exception:
        pass
    return hashlib.sha1("|".join(parts).encode("utf-8")).hexdigest()[:16]


# ------------------------------------------------------------------ one run
def stage_job(fs, job):
    """The user's side of a run: input files and output directories exist."""
    for d in job.mkdirs:
        fs.mkdir(d)
    fs.mkdir(job.cwd)
    for p, t in job.files.items():
        fs.put(p, t.encode("utf-8", "surrogateescape") if isinstance(t, str) else t)


def run_job(fs, env, job, entry="cli", fault=None, stage=True):
    """Process one job in this interpreter.  Returns (status, message, trace)."""
    shroud = setup_process()
    if stage:
        stage_job(fs, job)
    fs.cwd = job.cwd
    trace = fs.begin_run(fault)
    saved_argv = sys.argv
    saved_out, saved_err = sys.stdout, sys.stderr
    out = io.StringIO()
    status, message = "ok", ""
    seam.activate(fs, env)
    sys.stdout = out
    sys.stderr = out
    try:
        try:
            if entry == "api":
                if job.api.get("path") is None:
                    shroud.create_wrapper(job.api["filename"], outdir=job.api["outdir"])
                else:
                    shroud.create_wrapper(job.api["filename"], outdir=job.api["outdir"],
                                          path=list(job.api["path"]))
            elif entry in ("args", "args_reuse") and hasattr(shroud.main, "main_with_args"):
                captured = []
                real = shroud.main.main_with_args
                shroud.main.main_with_args = lambda a: captured.append(a)
                try:
                    sys.argv = ["shroud"] + job.argv
                    try:
                        shroud.main.main()
                    except SystemExit:
                        pass
                finally:
                    shroud.main.main_with_args = real
                if not captured:
                    raise RuntimeError("harness: argument parser did not reach main_with_args")
                if entry == "args_reuse":
                    # a caller that keeps ONE Namespace object for all its libraries and, before each
                    # call, sets exactly the attributes whose values differ from the previous library's
                    import copy
                    parsed = captured[0]
                    if _reuse["live"] is None:
                        _reuse["live"] = copy.copy(parsed)
                    else:
                        for key, val in vars(parsed).items():
                            if key not in vars(_reuse["parsed"]) or getattr(_reuse["parsed"], key) != val:
                                setattr(_reuse["live"], key, copy.copy(val))
                    _reuse["parsed"] = copy.deepcopy(parsed)
                    real(_reuse["live"])
                else:
                    real(captured[0])
            else:
                sys.argv = ["shroud"] + job.argv
                shroud.main.main()
        except SystemExit as e:
            code = e.code
            if code in (None, 0):
                status = "ok"
            else:
                status, message = "exit", str(code)
        except BaseException as e:  # noqa
            # files the aborted run still had open for writing (closed below, when its frames die)
            trace.left_open = sorted(trace.open_write_unclosed)
            status = "exc:" + type(e).__name__
            message = "".join(traceback.format_exception_only(type(e), e)).strip()
            tb = traceback.extract_tb(e.__traceback__)
            if tb:
                last = tb[-1]
                message += " @%s:%s" % (os.path.basename(last.filename), last.name)
            e.__traceback__ = None
            del e
    finally:
        sys.stdout, sys.stderr = saved_out, saved_err
        sys.argv = saved_argv
        seam.deactivate()
    # handles left open by an aborted run are closed now, deterministically
    gc.collect()
    trace.stdout = out.getvalue()
    return status, message, trace


# ------------------------------------------------------------------ judging
def compare_to_golden(fs, trace, golden):
    """C07: every golden path holds golden bytes; nothing else was written.

    golden: {"files": {path: latin-1 text}, "status": "ok"}
    Returns a list of violation dicts (empty = agrees).
    """
    out = []
    gfiles = golden["files"]
    for p in sorted(gfiles):
        want = gfiles[p].encode("latin-1")
        have = fs.get(p)
        if have is None:
            out.append({"inv": "missing", "path": p, "kind": file_kind(p)})
        elif have != want:
            out.append({"inv": "differs", "path": p, "kind": file_kind(p),
                        "detail": first_diff(want, have)})
    for p in sorted(trace.written):
        if p not in gfiles:
            out.append({"inv": "extra", "path": p, "kind": file_kind(p)})
    for kind, p in trace.escapes:
        if kind == "write":
            out.append({"inv": "escape", "path": p, "kind": file_kind(p)})
    return out


def first_diff(want, have):
    wl = want.decode("latin-1").split("\n")
    hl = have.decode("latin-1").split("\n")
    for i in range(max(len(wl), len(hl))):
        a = wl[i] if i < len(wl) else "<EOF>"
        b = hl[i] if i < len(hl) else "<EOF>"
        if a != b:
            return {"line": i + 1, "golden": a[:160], "got": b[:160]}
    return {"line": 0, "golden": "", "got": ""}


def trace_summary(trace):
    return {
        "nops": trace.nops,
        "reads": list(trace.reads),
        "writes": list(trace.writes),
        "written": {p: hashlib.sha1(b).hexdigest() for p, b in sorted(trace.written.items())},
        "emitter": dict(trace.emitter),
        "callers": dict(trace.callers),
        "escapes": list(trace.escapes),
        "faults_fired": list(trace.faults_fired),
        "read_after_trunc": list(trace.read_after_trunc),
        "nevents": len(trace.events),
    }


def events_digest(events_lists):
    m = hashlib.sha256()
    for evs in events_lists:
        for e in evs:
            m.update(repr(e).encode("utf-8"))
            m.update(b"\n")
        m.update(b"--\n")
    return m.hexdigest()
