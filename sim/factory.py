"""Host factory: an interpreter started with a seed-derived PYTHONHASHSEED that
imports shroud (never runs it) and forks one pristine child per history.

argv: <campaign.pickle> <specs.jsonl> <results.jsonl> [module:function of the executor]
Each child imports nothing new before the history starts, so every history
sees import-time registries; a child that dies or exceeds its cap is a harness
error (recorded as such), never a verdict.
"""
import faulthandler
import json
import os
import pickle
import select
import signal
import sys
import time

sys.path.insert(0, os.path.dirname(os.path.dirname(os.path.abspath(__file__))))

CAP = float(os.environ.get("SIM_HISTORY_CAP", "120"))


def resolve(name):
    mod, fn = name.split(":")
    m = __import__(mod, fromlist=[fn])
    return getattr(m, fn)


def main():
    from sim import host

    camp_path, specs_path, out_path = sys.argv[1:4]
    executor = resolve(sys.argv[4] if len(sys.argv) > 4 else "sim.history:execute_history_from_campaign")
    with open(camp_path, "rb") as fp:
        camp = pickle.load(fp)
    host.setup_process()
    with open(specs_path) as fp:
        specs = [json.loads(line) for line in fp if line.strip()]
    with open(out_path, "w") as out:
        for spec in specs:
            r, w = os.pipe()
            pid = os.fork()
            if pid == 0:
                os.close(r)
                code = 0
                try:
                    faulthandler.dump_traceback_later(CAP, exit=True)
                    res = executor(spec, camp)
                    data = json.dumps(res).encode("utf-8")
                except BaseException as e:  # noqa
                    import traceback

                    data = json.dumps({"hid": spec.get("hid"), "error":
                                       "harness: " + traceback.format_exc()[-3000:]}).encode("utf-8")
                    code = 3
                try:
                    with os.fdopen(w, "wb") as fp:
                        fp.write(data)
                finally:
                    os._exit(code)
            os.close(w)
            chunks = []
            deadline = time.monotonic() + CAP + 10
            with os.fdopen(r, "rb") as fp:
                while True:
                    left = deadline - time.monotonic()
                    if left <= 0:
                        break
                    ready, _, _ = select.select([fp], [], [], min(left, 5))
                    if ready:
                        b = os.read(fp.fileno(), 1 << 20)
                        if not b:
                            break
                        chunks.append(b)
            try:
                if time.monotonic() >= deadline:
                    os.kill(pid, signal.SIGKILL)
            except OSError:
                pass
            _, st = os.waitpid(pid, 0)
            data = b"".join(chunks)
            try:
                res = json.loads(data.decode("utf-8"))
            except Exception:
                res = {"hid": spec.get("hid"),
                       "error": "harness: child died (wait status %d) or exceeded %ss" % (st, CAP)}
            res["hashseed"] = os.environ.get("PYTHONHASHSEED")
            out.write(json.dumps(res) + "\n")
            out.flush()


if __name__ == "__main__":
    main()
