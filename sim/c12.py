"""C12: user splicer code is carried into the named blocks unchanged.

The generator is treated as the *compaction pass* of a key-value store whose
keys are (language, block name) and whose values are code bodies.  A history is
a sequence of user actions (edit a block in a generated file, put text outside
markers, set splicer_code / a declaration splicer / a hand-written splicer
file, drop a declaration) and regeneration cycles over one persistent SimFS.
After every regeneration the emitted blocks are compared with a reference
model (a plain dict).

Two workflows (chosen per history):
  feedback : every generated file is fed back as a splicer file each cycle
             (C/Fortran on the command line, Python/Lua through the YAML
             ``splicer:`` lists); edits are made in the generated files.
  userfile : the user keeps hand-written splicer files; generated files are
             never read back.
"""
import copy
import json
import os
import posixpath
import re

import yaml

from . import campaign, gcheck, jobs as J, minimise, report, synth
from .jobs import Job, IN_DIR, OUT, WORK
from .seeds import Seeds, digest_obj

LANG_OF_EMITTER = {"wrapc": "c", "wrapf": "f", "wrapp": "py", "wrapl": "lua"}
COMMENT = {"c": "//", "f": "!", "py": "//", "lua": "//"}
META = "#@^+-"
BEGIN, END = "splicer begin", "splicer end"


# ------------------------------------------------------------------ marker parsing (independent of shroud)
def parse_blocks(text):
    """Return (blocks, skeleton): blocks = [(name, [body lines])] in file order; skeleton = the
    text with block bodies removed and leading indentation stripped."""
    blocks = []
    skel = []
    cur = None
    body = None
    for line in text.split("\n"):
        if cur is None:
            i = line.find(BEGIN)
            if i > 0:
                f = line[i + len(BEGIN):].split()
                if f:
                    cur = f[0]
                    body = []
                    # (what a marker line carries besides the name - comment leader, a note - is not code)
                    skel.append(BEGIN + " " + cur)
                    continue
            skel.append(line.strip())
        else:
            i = line.find(END)
            if i > 0 and line[i + len(END):].split()[:1] == [cur]:
                blocks.append((cur, body))
                skel.append(END + " " + cur)
                cur = None
            else:
                body.append(line)
    return blocks, skel


def norm_body(lines):
    """Equality 'up to leading indentation and trailing blanks'."""
    return [l.strip() for l in lines]


def replace_block(text, name, new_body, indent):
    out = []
    cur = None
    done = False
    for line in text.split("\n"):
        if cur is None:
            out.append(line)
            i = line.find(BEGIN)
            if i > 0 and not done and line[i + len(BEGIN):].split()[:1] == [name]:
                cur = name
                for b in new_body:
                    out.append((indent + b) if b.strip() else b)
        else:
            i = line.find(END)
            if i > 0 and line[i + len(END):].split()[:1] == [cur]:
                out.append(line)
                cur = None
                done = True
    return "\n".join(out), done


# ------------------------------------------------------------------ libraries
def strip_splicers(node):
    """Remove every splicer input from a YAML dict (clean base library)."""
    if isinstance(node, dict):
        for k in ("splicer", "splicer_code"):
            node.pop(k, None)
        for v in node.values():
            strip_splicers(v)
    elif isinstance(node, list):
        for v in node:
            strip_splicers(v)
    return node


CORPUS_BASES = ["tutorial", "classes", "strings", "clibrary", "struct", "ownership", "namespace",
                "vectors", "templates", "pointers", "names2", "forward", "scope", "enum", "cdesc"]


def c12_libs(seeds, nsynth):
    """Return {libid: lib dict}.  lib = {yaml (dict), fname, argv_base, langs}."""
    libs = {}
    inputs = J.read_input_dir()
    for base in CORPUS_BASES:
        if base + ".yaml" not in inputs:
            continue
        d = yaml.safe_load(inputs[base + ".yaml"])
        strip_splicers(d)
        d.setdefault("options", {})
        d["options"]["wrap_python"] = bool(d["options"].get("wrap_python", False))
        libs["corpus/" + base] = {"yaml": d, "fname": base + ".yaml"}
    # classes-only libraries: headers that are empty unless the user supplies code for them
    libs["special/classes-only"] = {"fname": "conly.yaml", "yaml": {
        "library": "conly", "cxx_header": "conly.hpp", "options": {"debug": True},
        "declarations": [{"decl": "class Holder"},
                         {"decl": "class Worker", "declarations": [{"decl": "Worker()"}, {"decl": "~Worker()"},
                                                                   {"decl": "int work(int n)"}]}]}}
    libs["special/empty-class"] = {"fname": "eclass.yaml", "yaml": {
        "library": "eclass", "cxx_header": "eclass.hpp", "options": {"debug": True},
        "declarations": [{"decl": "class Token"}, {"decl": "void touch(int n)"},
                         {"decl": "namespace inner", "declarations": [{"decl": "class Deep"},
                                                                      {"decl": "int depth()"}]}]}}
    # namespaces nested two deep, two of them with the same last component: one Fortran module each
    libs["special/nested-ns"] = {"fname": "nestns.yaml", "yaml": {
        "library": "nestns", "cxx_header": "nestns.hpp", "options": {"debug": True},
        "declarations": [
            {"decl": "int top(int n)"},
            {"decl": "namespace alpha", "declarations": [
                {"decl": "int amid(int n)"},
                {"decl": "namespace detail", "declarations": [{"decl": "int adeep(int n)"},
                                                              {"decl": "class Core", "declarations": [
                                                                  {"decl": "Core()"}, {"decl": "int spin(int n)"}]}]}]},
            {"decl": "namespace beta", "declarations": [
                {"decl": "namespace detail", "declarations": [{"decl": "double bdeep(double x)"}]}]}]}}
    for i in range(nsynth):
        rng = seeds.rng("c12synth", i)
        text, meta = synth.synth_library(rng, i)
        d = yaml.safe_load(text)
        libs["synth/%d-%s" % (i, meta["lib"])] = {"yaml": d, "fname": meta["lib"].lower() + ".yaml"}
    return libs


def droppable(yaml_dict):
    """Indexes of top-level plain function declarations (safe to drop when the library evolves)."""
    out = []
    for i, d in enumerate(yaml_dict.get("declarations") or []):
        decl = d.get("decl", "") if isinstance(d, dict) else ""
        if "(" in decl and not re.match(r"\s*(class|struct|namespace|template|typedef|enum)\b", decl) \
                and "declarations" not in d:
            out.append(i)
    return out


# ------------------------------------------------------------------ body generation
WORDS = ["x", "y", "rv", "tmp", "count", "=", "==", "+", "-", "*", "/", "(", ")", "{", "}", "[i]", ";", ",",
         "call", "foo(1, 2)", "return", "if", "end if", "&", "&&", "->", "::", "%", "'a b'", '"s t"',
         "0", "42", "1.5e-3", "// c", "! f", "/* k */", "\\", "{0}", "{name}", "%s", "$", "~", "|", "<", ">",
         "caf\u00e9", "\u00b5m", "// \u65e5\u672c", "'\u00df'",
         # characters some line splitters treat as line ends (U+2028, NEL, form feed, vertical tab) inside a
         # token, and a comment that merely mentions the marker words
         "p\u2028q", "r\x85s", "v\x0bt", "// see splicer begin not.a.block"]
# (a body that mentions "splicer end <word>" is rejected by the reader with "Mismatched tags": a
#  diagnostic for text it cannot tell from a marker, not a loss of code - not generated)


META_WORDS = ["f\x0cf", "t\tt"]  # the writer's formatting metacharacters inside a line (recorded finding)


def gen_body(rng, uid, allow_tplus=True, from_yaml=False):
    """A code body; every line carries the unique id so that it can be traced in any file."""
    n = rng.choice([0, 1, 1, 2, 3, 5, 9]) if rng.random() < 0.9 else 0
    lines = []
    for k in range(n):
        r = rng.random()
        if r < 0.08 and k > 0:
            lines.append("")  # empty line inside a body
            continue
        toks = [rng.choice(WORDS) for _ in range(rng.randint(1, 7))]
        if allow_tplus == "meta" and rng.random() < 0.4:
            toks.insert(rng.randrange(len(toks) + 1), rng.choice(META_WORDS))
        line = " ".join(toks) + " u%sk%d" % (uid, k)
        if r < 0.2:
            line = line + " " + " ".join(rng.choice(WORDS) for _ in range(rng.randint(8, 30)))  # long line
        if not from_yaml and rng.random() < 0.5:
            line = " " * rng.randint(1, 9) + line  # user indentation
        if rng.random() < 0.15:
            line = line + " " * rng.randint(1, 4)  # trailing blanks (not significant)
        if allow_tplus is True and rng.random() < 0.15:
            line = line.rstrip() + " +"  # a C/Fortran line ending in a binary plus
        if line[:1] in META:
            line = "z" + line  # column-one formatting metacharacters are outside the property's domain
        lines.append(line)
    if not lines and rng.random() < 0.6:
        lines = ["only u%sk0;" % uid]
    return lines  # may be empty: the user wants the block empty


# ------------------------------------------------------------------ history generation (driver side)
def gen_history(seeds, libids, round_no, i, nlang_hint=None):
    rng = seeds.rng("c12hist", round_no, i)
    lib = rng.choice(libids)
    workflow = rng.choice(["feedback", "feedback", "userfile"])
    langs = ["c", "f"]
    if rng.random() < 0.6:
        langs.append("py")
    if rng.random() < 0.3:
        langs.append("lua")
    ops = []
    uid = 0
    tplus = rng.random() < 0.12  # swarm: only some histories contain lines ending in "+"
    if not tplus and rng.random() < 0.08:
        tplus = "meta"  # ... and a few others contain tabs / form feeds inside lines (never both kinds)
    ncycles = rng.randint(1, 6)
    ops.append({"op": "REGEN"})
    for c in range(ncycles):
        for _ in range(rng.randint(0, 4)):
            x = rng.random()
            uid += 1
            tag = "%dx%d" % (i, uid)
            lang = rng.choice(langs)
            if x < 0.45:
                if workflow == "feedback":
                    ops.append({"op": "EDIT_GEN", "lang": lang, "pick": rng.random(),
                                "body": gen_body(rng, tag, allow_tplus=tplus), "indent": " " * rng.choice([0, 2, 4, 8])})
                else:
                    ops.append({"op": "SET_USERFILE", "lang": lang, "pick": rng.random(),
                                "body": gen_body(rng, tag, allow_tplus=tplus), "indent": " " * rng.choice([0, 2, 4, 8]),
                                "chan": rng.choice(["yaml", "cmdline"])})
            elif x < 0.60:
                ops.append({"op": "SET_CODE", "lang": lang, "pick": rng.random(),
                            "body": gen_body(rng, tag, allow_tplus=tplus, from_yaml=True)})
            elif x < 0.75:
                body = gen_body(rng, tag, allow_tplus=tplus, from_yaml=True) or ["only u%sk0;" % tag]
                ops.append({"op": "SET_DECL", "lang": rng.choice([l for l in langs if l != "lua"]),
                            "pick": rng.random(), "body": body, "none_for_blank": rng.random() < 0.4,
                            "as_string": rng.random() < 0.3})
            elif x < 0.88:
                ops.append({"op": "EDIT_OUTSIDE", "lang": lang, "pick": rng.random(),
                            "text": ["stray text outside markers o%s" % tag,
                                     "splicer begin col.zero.is.not.a.marker o%s" % tag]})
            elif x < 0.94:
                ops.append({"op": "EVOLVE", "pick": rng.random()})
            else:
                ops.append({"op": "UNSET", "lang": lang, "pick": rng.random()})
        ops.append({"op": "REGEN"})
    # swarm: options that must not influence whether a user body is consulted
    options = {}
    for name in ("debug", "doxygen", "literalinclude", "F_force_wrapper", "C_force_wrapper"):
        if rng.random() < 0.25:
            options[name] = rng.choice([True, False])
    if rng.random() < 0.2:
        options["C_line_length"] = rng.choice([40, 60, 120])
    if rng.random() < 0.2:
        options["F_line_length"] = rng.choice([50, 100])
    if rng.random() < 0.25:
        # Python / Lua switched on declaration by declaration instead of for the whole library
        options["__per_declaration_switch"] = True
    return {"prop": "C12", "round": round_no, "index": i, "lib": lib, "workflow": workflow,
            "langs": langs, "ops": ops, "options": options}


# ------------------------------------------------------------------ executor (host child)
class Store(object):
    """The reference model: what the user has supplied, per channel."""

    def __init__(self):
        self.code = {}  # lang -> {name: body}           (splicer_code)
        self.decl = {}  # (decl index path, lang) -> body (declaration splicer)
        self.userfile = {}  # lang -> {name: (body, indent, chan)}
        self.gen = {}  # lang -> {name: body}            (edits living in generated files)


def run_shroud(fs, env, lib_yaml, fname, argv_extra, files_extra, langs, cwd=None):
    from . import host

    d = copy.deepcopy(lib_yaml)
    opts = d.setdefault("options", {})
    opts["wrap_c"] = True
    opts["wrap_fortran"] = True
    opts["wrap_python"] = "py" in langs
    opts["wrap_lua"] = "lua" in langs
    if opts.pop("__per_declaration_switch", False):
        # the same selection, expressed on every top-level declaration: the library default stays off
        for key, lang in (("wrap_python", "py"), ("wrap_lua", "lua")):
            if lang in langs:
                opts[key] = False
                for decl in d.get("declarations") or []:
                    if isinstance(decl, dict) and ("decl" in decl or "block" in decl):
                        decl.setdefault("options", {}).setdefault(key, True)
    opts["show_splicer_comments"] = True
    text = yaml.safe_dump(d, sort_keys=False, default_flow_style=False, width=1000)
    files = {IN_DIR + "/" + fname: text}
    files.update(files_extra)
    argv = ["--path", IN_DIR, "--outdir", OUT, "--logdir", "/sim/log", "--option", "debug_testsuite=true",
            "--nowrite-version"] + argv_extra + [IN_DIR + "/" + fname]
    job = Job("c12", files, argv, [OUT, WORK, "/sim/log"], cwd=cwd or WORK)
    status, message, trace = host.run_job(fs, env, job, "cli")
    return status, message, trace, text


def outputs_by_lang(trace):
    out = {}
    for p, data in trace.written.items():
        lang = LANG_OF_EMITTER.get(trace.emitter.get(p))
        if lang:
            out.setdefault(lang, {})[p] = data.decode("utf-8", "replace")
    return out


def collect_blocks(files):
    """files {path: text} -> (unique {name: (path, body)}, ambiguous {name: [bodies in file order]},
    skeletons)."""
    seen = {}
    occ = {}
    skels = {}
    for p in sorted(files):
        blocks, skel = parse_blocks(files[p])
        skels[p] = skel
        for name, body in blocks:
            occ.setdefault(name, []).append(norm_body(body))
            seen.setdefault(name, (p, body))
    amb = {n: b for n, b in occ.items() if len(b) > 1}
    for name in amb:
        seen.pop(name, None)
    return seen, amb, skels


def name_pattern(name):
    parts = name.split(".")
    out = []
    for i, p in enumerate(parts):
        if i > 0 and parts[i - 1] in ("class", "namespace"):
            out.append("*")
        else:
            out.append(p)
    return ".".join(out)


def set_nested(d, dotted, value):
    parts = dotted.split(".")
    for p in parts[:-1]:
        d = d.setdefault(p, {})
    d[parts[-1]] = value


def documented_names(lang, per_lang):
    """Block names the documentation promises for every wrapped class / the library (docs/input.rst,
    'C header' / 'C implementation'), whether or not the default output happens to contain them."""
    if lang != "c" or not per_lang.get("cxx"):
        return set()  # (C++ libraries only: a C library has no CXX_* blocks)
    out = set(["CXX_declarations", "C_declarations", "CXX_definitions", "C_definitions"])
    classes = set(per_lang.get("yaml_classes", []))
    for n in list(per_lang.get("uniq", {})) + list(per_lang.get("amb", [])):
        m = re.match(r"^class\.([A-Za-z0-9_]+)\.", n)
        if m:
            classes.add(m.group(1))
    for c in classes:
        for b in ("CXX_declarations", "C_declarations", "CXX_definitions", "C_definitions"):
            out.add("class.%s.%s" % (c, b))
    return out


def pick_name(names, pick, prefer=None):
    """Selector -> name; a third of the draws prefer names with a special shape when there are any."""
    names = sorted(names)
    if prefer:
        special = [n for n in names if prefer(n)]
        if special and (int(pick * 9973) % 3 == 0):
            names = special
    return pick_from(names, pick)


def pick_from(seq, pick):
    seq = sorted(seq)
    if not seq:
        return None
    return seq[min(len(seq) - 1, int(pick * len(seq)))]


def decl_nodes(yaml_dict):
    """Function-like declarations anywhere in the tree: [(path tuple, node)]."""
    out = []

    def walk(decls, path):
        for i, d in enumerate(decls or []):
            if not isinstance(d, dict):
                continue
            decl = d.get("decl", "")
            if "(" in decl.split("+")[0] and "declarations" not in d \
                    and not re.match(r"\s*(template|typedef|enum|struct)\b", decl) \
                    and "~" not in decl and not (set(d) - {"decl", "doxygen", "splicer", "__line__"}):
                out.append((path + (i,), d))
            walk(d.get("declarations"), path + (i,))

    walk(yaml_dict.get("declarations"), ())
    return out


ACCESSOR = re.compile(r"(.*\.)?class\.[^.]+\.method\.(get|set)_\w+$")


def templated_classes(yaml_dict):
    out = set()

    def walk(decls):
        for d in decls or []:
            if isinstance(d, dict):
                m = re.match(r"\s*template\s*<[^>]*>\s*class\s+(\w+)", d.get("decl", ""))
                if m or ("cxx_template" in d and re.match(r"\s*class\b", d.get("decl", ""))):
                    out.add(m.group(1) if m else d["decl"].split()[1])
                walk(d.get("declarations"))

    walk(yaml_dict.get("declarations"))
    return out


def cause_of(lang, name, base_body, yaml_dict):
    """Why a block is special (part of the violation signature; used by known findings)."""
    if lang == "c" and ACCESSOR.match(name) and base_body is not None and any(
            ("SH_this->" in l and ("return" in l or "= val" in l)) for l in base_body):
        return "member-accessor"
    parts = name.split(".")
    for i, p in enumerate(parts[:-1]):
        if p == "class" and parts[i + 1] in templated_classes(yaml_dict):
            return "class-template"
    if lang == "py" and name.endswith(".utility.to_object"):
        return "py-to_object"
    if lang == "lua":
        # the Lua emitter names a block after the bare function name: no namespace scope and no
        # overload suffix (overloaded functions and constructors are dispatched inside one wrapper)
        return "lua-flat-names"
    return "plain"


def classify_mismatch(want, got):
    """Feature of the first differing line (part of the violation signature)."""
    for i in range(max(len(want), len(got))):
        a = want[i] if i < len(want) else None
        b = got[i] if i < len(got) else None
        if a != b:
            if a is not None and b is not None and a.endswith("+") and a[:-1].rstrip() == b:
                return "trailing-plus-dropped", i, a, b
            if a is not None and b is not None and ("\t" in a or "\f" in a):
                # the writer's formatting metacharacters: a tab is dropped (or, in a long line, becomes
                # the place where the line is broken), a form feed always breaks the line there
                bb = b[:-1].rstrip() if b.endswith("&") else b
                parts = re.split("[\t\f]", a)
                if any("".join(parts[:k]).rstrip() in (b, bb) for k in range(1, len(parts) + 1)):
                    return ("formfeed-breaks-line" if "\f" in a else "tab-removed"), i, a, b
            if b is None:
                return "lines-missing", i, a, b
            if a is None:
                return "extra-lines", i, a, b
            return "line-differs", i, a, b
    return "same", -1, None, None


def execute_history_c12(spec, camp):
    from . import host, history
    from .simfs import SimFS

    host.setup_process()
    lib = camp["libs"][spec["lib"]]
    langs = spec["langs"]
    workflow = spec["workflow"]
    fs = SimFS()
    env = history.default_env()
    ydict = copy.deepcopy(lib["yaml"])
    ydict.setdefault("options", {}).update(spec.get("options") or {})
    fname = lib["fname"]
    store = Store()
    result = {"hid": spec.get("hid"), "violations": [], "runs": [], "probes": {}, "error": None,
              "ambiguous": []}
    probes = result["probes"]
    events = []

    def probe(n, k=1):
        probes[n] = probes.get(n, 0) + k

    baseline_cache = {}

    def baseline():
        """Blocks of the same library generated without any splicer (fresh SimFS, same host)."""
        key = digest_obj(strip_splicers(copy.deepcopy(ydict)))
        if key not in baseline_cache:
            bfs = SimFS()
            clean = strip_splicers(copy.deepcopy(ydict))
            st, msg, tr, _ = run_shroud(bfs, env, clean, fname, [], {}, langs)
            per = {}
            if st == "ok":
                for lang, files in outputs_by_lang(tr).items():
                    uniq, amb, skels = collect_blocks(files)
                    per[lang] = {"uniq": {n: norm_body(b) for n, (p, b) in uniq.items()}, "amb": set(amb),
                                 "yaml_classes": [re.match(r"\s*class\s+(\w+)\s*$", d.get("decl", "")).group(1)
                                                  for d in (clean.get("declarations") or [])
                                                  if isinstance(d, dict) and re.match(r"\s*class\s+(\w+)\s*$", d.get("decl", ""))
                                                  and "cxx_template" not in d and not d.get("options")],
                                 "cxx": str(clean.get("language", "c++")).lower() in ("c++", "cxx")
                                 and any(n.endswith("CXX_definitions") or n.endswith("CXX_declarations")
                                         for n in list(uniq) + list(amb))}
            baseline_cache[key] = (st, msg, per)
        return baseline_cache[key]

    prev_out = None  # outputs_by_lang of the previous regeneration
    prev_blocks = {}  # lang -> uniq blocks of previous regeneration
    prev_amb = {}
    dirty_since_regen = set()  # kinds of ops since last REGEN
    decl_block = {}  # (path, lang) -> block name found for that declaration splicer
    decl_none = set()  # declaration splicers written with None for blank lines
    decl_string = set()  # declaration splicers written as one newline-delimited string (YAML block scalar)
    cycle = 0
    outside_tokens = []

    for k, op in enumerate(spec["ops"]):
        kind = op["op"]
        if kind != "REGEN":
            dirty_since_regen.add(kind)
            lang = op.get("lang")
            if lang and lang not in langs:
                continue
        if kind == "EDIT_GEN":
            if workflow != "feedback" or prev_out is None:
                continue
            names = [n for n in prev_blocks.get(lang, {})
                     if n not in store.code.get(lang, {}) and not any(n in v for v in decl_block.values())]
            name = pick_from(names, op["pick"])
            if name is None:
                continue
            path, _ = prev_blocks[lang][name]
            cur = fs.get(path)
            if cur is None:
                continue
            body = list(op["body"])
            if int(op["pick"] * 6151) % 5 == 0:
                # people copy what they see: the user's code repeats the generated line just above the
                # block (e.g. another `use` statement, another #include) as its first line
                text_ = cur.decode("utf-8", "replace").split("\n")
                at = [i for i, l in enumerate(text_) if BEGIN in l and l.split(BEGIN, 1)[1].split()[:1] == [name]]
                above = [l.strip() for l in text_[:at[0]] if l.strip() and BEGIN not in l and END not in l] if at else []
                if above and above[-1][:1] not in META and not above[-1].endswith("+") \
                        and "\t" not in above[-1] and "\f" not in above[-1]:
                    body = [above[-1]] + body
                    probe("body_repeats_generated_line")
            new, ok = replace_block(cur.decode("utf-8", "replace"), name, body, op.get("indent", ""))
            if ok:
                fs.put(path, new)
                store.gen.setdefault(lang, {})[name] = list(body)
                probe("edit_gen")
                events.append(("EDIT_GEN", lang, name, len(op["body"])))
        elif kind == "EDIT_OUTSIDE":
            if prev_out is None:
                continue
            paths = sorted(prev_out.get(lang, {}))
            path = pick_from(paths, op["pick"])
            if path is None or workflow != "feedback":
                continue
            cur = fs.get(path).decode("utf-8", "replace").split("\n")
            # insert right after an end marker (never inside a block) or at the top
            ends = [i for i, l in enumerate(cur) if l.find(END) > 0]
            at = (ends[int(op["pick"] * 7919) % len(ends)] + 1) if ends else 0
            cur[at:at] = op["text"]
            fs.put(path, "\n".join(cur))
            outside_tokens.extend(t.split()[-1] for t in op["text"])
            probe("edit_outside")
            events.append(("EDIT_OUTSIDE", lang, path))
        elif kind == "SET_USERFILE":
            if workflow != "userfile":
                continue
            st, msg, per = baseline()
            cand = set(per.get(lang, {}).get("uniq", {})) | documented_names(lang, per.get(lang, {}))
            names = [n for n in cand if n not in store.code.get(lang, {}) and n not in per.get(lang, {}).get("amb", [])]
            shared = sorted(n for n in per.get(lang, {}).get("amb", []) if n not in store.code.get(lang, {}))
            if shared and int(op["pick"] * 7919) % 4 == 0:
                names = shared  # a name several blocks carry: every one of them is "that block"
            name = pick_name(names, op["pick"], prefer=lambda n: n.split(".")[-1].endswith("_declarations"))
            if name is None:
                continue
            store.userfile.setdefault(lang, {})[name] = (list(op["body"]), op.get("indent", ""), op.get("chan", "yaml"))
            probe("set_userfile")
            events.append(("SET_USERFILE", lang, name))
        elif kind == "SET_CODE":
            st, msg, per = baseline()
            cand = set(per.get(lang, {}).get("uniq", {})) | documented_names(lang, per.get(lang, {}))
            names = [n for n in cand
                     if n not in store.userfile.get(lang, {}) and n not in store.gen.get(lang, {})
                     and n not in per.get(lang, {}).get("amb", [])
                     and not any(n in v for v in decl_block.values())]
            shared = sorted(n for n in per.get(lang, {}).get("amb", [])
                            if n not in store.userfile.get(lang, {}) and n not in store.gen.get(lang, {})
                            and not any(n in v for v in decl_block.values()))
            if shared and int(op["pick"] * 7919) % 4 == 0:
                names = shared
            name = pick_name(names, op["pick"], prefer=lambda n: "__" in n or n.split(".")[-1].endswith("_declarations"))
            if name is None:
                continue
            store.code.setdefault(lang, {})[name] = list(op["body"])
            probe("set_code")
            events.append(("SET_CODE", lang, name))
        elif kind == "SET_DECL":
            nodes = decl_nodes(ydict)
            if not nodes:
                continue
            path, node = nodes[min(len(nodes) - 1, int(op["pick"] * len(nodes)))]
            store.decl[(path, lang)] = list(op["body"])
            if op.get("none_for_blank"):
                decl_none.add((path, lang))
            elif op.get("as_string"):
                decl_string.add((path, lang))
            probe("set_decl")
            events.append(("SET_DECL", lang, path))
        elif kind == "UNSET":
            for table in (store.code, store.userfile):
                names = sorted(table.get(lang, {}))
                name = pick_from(names, op["pick"])
                if name is not None:
                    del table[lang][name]
                    probe("unset")
                    events.append(("UNSET", lang, name))
                    break
        elif kind == "EVOLVE":
            idx = droppable(ydict)
            # never drop a declaration that carries a declaration-level splicer
            idx = [i for i in idx if not any(p[0] == i for (p, l) in store.decl)]
            if len(idx) > 1:
                i = idx[min(len(idx) - 1, int(op["pick"] * len(idx)))]
                del ydict["declarations"][i]
                store.decl = {((p[0] - 1,) + p[1:] if p[0] > i else p, l): b for (p, l), b in store.decl.items()}
                decl_block = {((p[0] - 1,) + p[1:] if p[0] > i else p, l): n for (p, l), n in decl_block.items()}
                decl_none = set(((p[0] - 1,) + p[1:] if p[0] > i else p, l) for (p, l) in decl_none)
                decl_string = set(((p[0] - 1,) + p[1:] if p[0] > i else p, l) for (p, l) in decl_string)
                probe("evolve")
                events.append(("EVOLVE", i))
        if kind != "REGEN":
            continue

        # ---------------- regeneration
        cycle += 1
        yd = copy.deepcopy(ydict)
        argv_extra = []
        files_extra = {}
        # declaration-level splicers
        for (path, lang), body in store.decl.items():
            node = {"declarations": yd["declarations"]}
            for i in path:
                node = node["declarations"][i]
            # an empty "-" entry of a YAML list is None; documented to mean a blank line
            if (path, lang) in decl_string:
                node.setdefault("splicer", {})[lang] = "\n".join(body) + "\n"
            else:
                node.setdefault("splicer", {})[lang] = [
                    (None if (b == "" and (path, lang) in decl_none) else b) for b in body]
        # splicer_code
        if any(store.code.values()):
            sc = {}
            for lang, names in store.code.items():
                for name, body in names.items():
                    set_nested(sc.setdefault(lang, {}), name, list(body))
            yd["splicer_code"] = sc
        ylists = {}
        run_cwd = None
        # hand-written splicer files
        for lang, names in store.userfile.items():
            for chan in ("yaml", "cmdline"):
                # suffix routing would send a Python/Lua splicer file to the C splicers
                sel = {n: v for n, v in names.items()
                       if ("yaml" if lang in ("py", "lua") else v[2]) == chan}
                if not sel:
                    continue
                ext = {"c": ".c", "f": ".f", "py": ".c", "lua": ".c"}[lang]
                # how people name and place their splicer files (constant within a history)
                naming = spec.get("index", 0) % 5
                fn = "user_%s_%s%s" % (lang, chan, ext)
                if naming == 4 and workflow == "userfile":
                    # the YAML-listed splicer file began as a copy of a generated file and kept its name;
                    # it lives in the directory named by --path, and shroud is run from the build
                    # directory, where the generated file of that name sits from the second cycle on
                    run_cwd = OUT
                    gen = sorted(posixpath.basename(q) for q in (prev_out or {}).get(lang, {})
                                 if not q.endswith((".h", ".hpp", ".py")))
                    if chan == "yaml" and gen:
                        fn = gen[(len(lang) + spec.get("index", 0) // 5) % len(gen)]
                        probe("splicer_file_named_like_a_generated_file")
                if naming == 1:
                    # the same base name in two directories
                    fn = "%s/usersp_%s%s" % ("core" if chan == "yaml" else "local", lang, ext)
                elif naming == 2 and lang == "c":
                    # a C file whose name happens to start like the generated Python / Lua files
                    fn = "%s_%s%s" % ("pyramid" if chan == "cmdline" else "luaconf", chan, ext)
                lines = ["%s hand-written splicer file" % COMMENT[lang]]
                for j, n in enumerate(sorted(sel)):
                    body, indent, _ = sel[n]
                    # people write the markers in different comment styles, with text after the name
                    style = (len(n) + j + cycle) % 6
                    if style in (4, 5):
                        # any comment leader will do: the reader looks for the words, not for the
                        # leader (Lua "--", fixed-form Fortran "C" / "*" in column one, ";", "REM")
                        lead = [["--", ";;", "REM"], ["C    ", "*", "c"]][1 if lang == "f" else 0][(len(n) + cycle) % 3]
                        if style == 5:
                            lead = ["--", "%", "::"][(len(n) + cycle) % 3]
                        b1, e1 = "%s %s %s" % (lead, BEGIN, n), "%s %s %s" % (lead, END, n)
                    elif style == 0:
                        b1, e1 = "%s %s %s" % (COMMENT[lang], BEGIN, n), "%s %s %s" % (COMMENT[lang], END, n)
                    elif style == 1 and lang != "f":
                        b1, e1 = "/* %s %s */" % (BEGIN, n), "/* %s %s */" % (END, n)
                    elif style == 2:
                        b1 = "%s %s %s   %s keep" % (COMMENT[lang], BEGIN, n, COMMENT[lang])
                        e1 = "%s %s %s" % (COMMENT[lang], END, n)
                    else:
                        b1 = "    %s%s %s" % (COMMENT[lang], " " + BEGIN, n)
                        e1 = "    %s %s %s (hand written)" % (COMMENT[lang], END, n)
                    lines.append(b1)
                    lines += [(indent + b) if b.strip() else b for b in body]
                    lines.append(e1)
                    lines.append("text between blocks is ignored")
                files_extra[IN_DIR + "/" + fn] = "\n".join(lines) + "\n"
                if chan == "yaml":
                    ylists.setdefault(lang, []).append(fn)
                else:
                    argv_extra.append(IN_DIR + "/" + fn)
                    if naming == 3 and all("." in n for n in sel):
                        # (the reader rejects a repeated *undotted* name with "Tag already exists", a
                        # diagnostic, not a loss of code; repeated dotted names are taken once)
                        # named on the command line and listed in the YAML as well
                        ylists.setdefault(lang, []).append(fn)
                        probe("splicer_file_named_twice")
        # feedback of generated files
        fed = {}
        if workflow == "feedback" and prev_out is not None:
            for lang in langs:
                for p in sorted(prev_out.get(lang, {})):
                    if fs.get(p) is None:
                        continue
                    fed.setdefault(lang, []).append(p)
                    if lang in ("c", "f"):
                        argv_extra.append(p)
                    else:
                        # suffix routing would send py*.cpp / lua*.cpp to the C splicers
                        ylists.setdefault(lang, []).append(posixpath.relpath(p, IN_DIR))
        if ylists:
            yd["splicer"] = ylists
        st, msg, trace, ytext = run_shroud(fs, env, yd, fname, argv_extra, files_extra, langs, cwd=run_cwd)
        events.append(list(trace.events) + [("status", st)])
        result["runs"].append({"op": k, "kind": "REGEN", "job": spec["lib"], "entry": "cli", "status": st,
                               "pre": "cycle%d" % cycle, "nops": trace.nops, "faults_fired": [],
                               "message": msg[:300]})
        probe("regen")
        if cycle >= 3:
            probe("cycle_ge_3")
        bst, bmsg, bper = baseline()
        if bst != "ok":
            # the library itself is not accepted: not a target (counted, not judged)
            probe("library_rejected")
            break
        vs = []
        if st != "ok":
            vs.append({"inv": "I12.0-regeneration-fails", "kind": "status", "path": "",
                       "detail": {"message": msg[:300], "workflow": workflow,
                                  "dirty": sorted(dirty_since_regen)}})
            for v in vs:
                v.update(op_index=k, job=spec["lib"])
            result["violations"].extend(vs)
            break
        if trace.read_after_trunc:
            vs.append({"inv": "I12.6-read-after-truncate", "kind": "order", "path": trace.read_after_trunc[0],
                       "detail": {}})
        out = outputs_by_lang(trace)
        alltext = {lang: "\n".join(files.values()) for lang, files in out.items()}
        blocks_now = {}
        tainted_lang = {}
        amb_now = {}
        for lang in langs:
            uniq, amb, skels = collect_blocks(out.get(lang, {}))
            blocks_now[lang] = uniq
            amb_now[lang] = amb
            for name in sorted(amb):
                result["ambiguous"].append("%s:%s" % (lang, name_pattern(name)))
                # a name that occurs more than once cannot be fed back faithfully: the reader keeps
                # one body per name.  Reported only with a concrete failing regeneration.
                if (workflow == "feedback" and fed.get(lang) and name in prev_amb.get(lang, {})
                        and dirty_since_regen <= {"EDIT_GEN", "EDIT_OUTSIDE"}
                        and prev_amb[lang][name] != amb[name]):
                    vs.append({"inv": "I12.4-ambiguous-block-name",
                               "kind": "%s:%s" % (lang, cause_of(lang, name, None, ydict)),
                               "path": "", "detail": {"block": name, "occurrences": len(amb[name]),
                                                      "before": prev_amb[lang][name][:2], "after": amb[name][:2]}})
            base = bper.get(lang, {"uniq": {}, "amb": set()})
            # locate the blocks forced by declaration-level splicers (by their unique tokens)
            for (path, l), body in store.decl.items():
                if l != lang:
                    continue
                toks = re.findall(r"u\d+x\d+k\d+", " ".join(body))
                found = set(name for name, (p, b) in uniq.items() if toks and any(toks[0] in x for x in b))
                if lang == "c":
                    # documented keys: "c" is the plain C wrapper, "c_buf" the bufferify variant; code
                    # given for one must not replace the default of the other
                    leaked = sorted(n for n in found if re.search(r"_(bufferify|CFI|cfi)$", n))
                    for n in leaked:
                        vs.append({"inv": "I12.2-default", "kind": "c:default:declaration-splicer-leaked-into-variant:plain",
                                   "path": uniq[n][0], "detail": {"block": n, "pattern": name_pattern(n), "cycle": cycle}})
                    found -= set(leaked)
                node = {"declarations": ydict["declarations"]}
                try:
                    for i_ in path:
                        node = node["declarations"][i_]
                    ndefault = node.get("decl", "").split("(", 1)[1].count("=") if "(" in node.get("decl", "") else 0
                except (KeyError, IndexError, TypeError):
                    ndefault = 0
                if found and ndefault and lang in ("c", "f") and len(found) < ndefault + 1 and not tainted_lang.get(lang):
                    # a function with n default arguments is wrapped n+1 times in C and Fortran; the
                    # declaration's code belongs into every one of them
                    vs.append({"inv": "I12.3-declaration-splicer-lost", "kind": "%s:default-argument-variants" % lang,
                               "path": "", "detail": {"decl": node.get("decl"), "blocks_with_the_code": sorted(found),
                                                      "expected_at_least": ndefault + 1}})
                if not found:
                    if toks and toks[0] in alltext.get(lang, ""):
                        continue  # landed in an ambiguous block name: not asserted
                    if lang == "c":
                        # a 'c' declaration splicer applies to the plain C wrapper only, which does
                        # not exist for every function (string results get a bufferify wrapper)
                        probe("decl_splicer_no_block")
                        continue
                    vs.append({"inv": "I12.3-declaration-splicer-lost", "kind": lang, "path": "",
                               "detail": {"decl_path": list(path), "body": body[:3]}})
                    continue
                decl_block.setdefault((path, lang), set()).update(found)
            # Code supplied (splicer_code / splicer file) for a name that several blocks carry belongs
            # into every one of them.
            for name in sorted(amb):
                if name in store.code.get(lang, {}):
                    want, chan = norm_body(store.code[lang][name]), "splicer_code"
                elif name in store.userfile.get(lang, {}):
                    want, chan = norm_body(store.userfile[lang][name][0]), "userfile-" + store.userfile[lang][name][2]
                else:
                    continue
                if any(l.endswith("+") for l in want):
                    continue  # (trailing "+": recorded finding, judged on uniquely named blocks only)
                dtoks = [t for (pth, l), bd in store.decl.items() if l == lang
                         for t in re.findall(r"u\d+x\d+k\d+", " ".join(bd))[:1]]
                if any(t in " ".join(got) for got in amb[name] for t in dtoks):
                    continue  # a declaration-level splicer owns one of these blocks (highest precedence)
                probe("shared_name_blocks_judged")
                for k_, got in enumerate(amb[name]):
                    if got != want:
                        feat, li, a, b = classify_mismatch(want, got)
                        vs.append({"inv": "I12.1-body", "kind": "%s:%s:shared-name-%s:plain" % (lang, chan, feat),
                                   "path": "", "detail": {"block": name, "occurrence": k_, "of": len(amb[name]),
                                                          "line": li, "want": a, "got": b}})
                        break
            # A supplied line ending in "+" is swallowed as an indent marker (known finding) and shifts
            # the indentation -- hence the line breaks -- of everything written after it: in such a
            # run only the blocks that themselves carry such a line are judged.
            supplied = [b for t in (store.code, store.gen) for b in t.get(lang, {}).values()]
            supplied += [v[0] for v in store.userfile.get(lang, {}).values()]
            supplied += [b for (pth, l), b in store.decl.items() if l == lang]
            if workflow == "feedback" and fed.get(lang):
                supplied += [b for (pp, b) in prev_blocks.get(lang, {}).values()]
            tainted = any(l.rstrip().endswith("+") for b in supplied for l in b)
            tainted_lang[lang] = tainted
            if tainted:
                probe("tainted_by_trailing_plus")
            # One Fortran module is written per namespace: its blocks are all named after that one
            # namespace, so a user who reads one block name knows the others (docs/output.rst).
            if lang == "f":
                quals = {}
                for p, text in out.get(lang, {}).items():
                    for name, _body in parse_blocks(text)[0]:
                        if name.startswith("namespace."):
                            quals.setdefault(p, set()).add(name.split(".")[1])
                for p, q in sorted(quals.items()):
                    if len(q) > 1:
                        vs.append({"inv": "I12.8-namespace-block-names-disagree", "kind": "f", "path": p,
                                   "detail": {"qualifiers_in_one_module": sorted(q)}})
            # expected body per block
            for name, (p, body) in sorted(uniq.items()):
                got = norm_body(body)
                want = None
                chan = None
                forced = [pl for pl, n in decl_block.items() if name in n and pl[1] == lang and pl in store.decl]
                if forced:
                    want, chan = norm_body(store.decl[forced[0]]), "decl"
                elif name in store.code.get(lang, {}):
                    want, chan = norm_body(store.code[lang][name]), "splicer_code"
                elif name in store.userfile.get(lang, {}):
                    want, chan = norm_body(store.userfile[lang][name][0]), "userfile-" + store.userfile[lang][name][2]
                elif name in store.gen.get(lang, {}):
                    want, chan = norm_body(store.gen[lang][name]), "edited-generated-file"
                elif workflow == "feedback" and name in prev_blocks.get(lang, {}) and fed.get(lang):
                    want, chan = norm_body(prev_blocks[lang][name][1]), "fed-back"
                elif name in base["uniq"]:
                    want, chan = base["uniq"][name], "default"
                else:
                    probe("block_unjudged_new")
                    continue
                if tainted and not any(l.endswith("+") for l in want):
                    continue
                probe("blocks_judged")
                probe("blocks_judged_" + chan)
                if got != want:
                    feat, li, a, b = classify_mismatch(want, got)
                    cause = cause_of(lang, name, base["uniq"].get(name), ydict)
                    vs.append({"inv": "I12.1-body" if chan != "default" else "I12.2-default",
                               "kind": "%s:%s:%s:%s" % (lang, chan, feat, cause), "path": p,
                               "detail": {"block": name, "line": li, "want": a, "got": b,
                                          "pattern": name_pattern(name), "cycle": cycle}})
            # supplied bodies whose block exists in the baseline must still have a block
            for table, chan in ((store.code, "splicer_code"), (store.userfile, "userfile"), (store.gen, "edited-generated-file")):
                for name in sorted(table.get(lang, {})):
                    if (name in base["uniq"] or name in documented_names(lang, base)) and name not in uniq \
                            and name not in amb:
                        vs.append({"inv": "I12.1-block-vanished", "kind": "%s:%s" % (lang, chan), "path": "",
                                   "detail": {"block": name, "documented_only": name not in base["uniq"]}})
        # I12.5 nothing supplied for language X appears in language Y's files; stray text nowhere
        for lang in langs:
            for table in (store.code, store.gen):
                for name, body in table.get(lang, {}).items():
                    toks = re.findall(r"u\d+x\d+k\d+", " ".join(body))[:1]
                    for other in langs:
                        if other != lang and toks and toks[0] in alltext.get(other, ""):
                            vs.append({"inv": "I12.5-cross-language", "kind": "%s->%s" % (lang, other), "path": "",
                                       "detail": {"block": name, "token": toks[0]}})
        for tok in outside_tokens:
            for lang in langs:
                if tok in alltext.get(lang, ""):
                    vs.append({"inv": "I12.7-text-outside-markers-used", "kind": lang, "path": "",
                               "detail": {"token": tok}})
        # I12.4 fixed point of the text outside blocks when only generated files were edited
        if prev_out is not None and workflow == "feedback" and dirty_since_regen <= {"EDIT_GEN", "EDIT_OUTSIDE"}:
            probe("fixed_point_checked")
            for lang in langs:
                if tainted_lang.get(lang):
                    continue  # a swallowed trailing "+" shifts indentation, hence line breaks, of the whole file
                for p in sorted(out.get(lang, {})):
                    if p in prev_out.get(lang, {}):
                        _, s1 = parse_blocks(prev_skel_src[lang][p])
                        _, s2 = parse_blocks(out[lang][p])
                        if s1 != s2:
                            d = [i for i, (a, b) in enumerate(zip(s1, s2)) if a != b][:1]
                            vs.append({"inv": "I12.4-not-a-fixed-point", "kind": lang, "path": p,
                                       "detail": {"line": d, "len": [len(s1), len(s2)]}})
        for v in vs:
            v.update(op_index=k, job=spec["lib"])
        result["violations"].extend(vs)
        if vs:
            break
        # after a regeneration, edits made in generated files have become the files' content
        prev_out = out
        prev_skel_src = out
        prev_blocks = blocks_now
        prev_amb = amb_now
        if workflow == "feedback":
            store.gen = {}
        dirty_since_regen = set()
    result["ambiguous"] = sorted(set(result["ambiguous"]))
    result["digest"] = host.events_digest([e if isinstance(e, list) else [e] for e in events])
    result["nops"] = sum(r.get("nops", 0) for r in result["runs"])
    return result


# ------------------------------------------------------------------ engine (driver side)
import time


class C12Engine(object):
    prop = "C12"
    executor = "sim.c12:execute_history_c12"
    TIERS = {"quick": dict(nsynth=10, rounds=2, per_round=700, selftest=24, min_classes=8, min_budget=120),
             "thorough": dict(nsynth=80, rounds=30, per_round=960, selftest=200, min_classes=16, min_budget=240)}

    def __init__(self, args):
        self.args = args
        self.tier = args.tier
        self.cfg = dict(self.TIERS[self.tier])
        if args.rounds is not None:
            self.cfg["rounds"] = args.rounds
        if args.per_round is not None:
            self.cfg["per_round"] = args.per_round
        self.seeds = Seeds(args.seed)
        self.t0 = time.time()
        self.stats = {"histories": 0, "runs": 0, "fs_ops": 0, "harness_errors": 0, "probes": {},
                      "violating_histories": 0, "workflow": {}, "ambiguous": {}}
        self.states = set()
        self.run_log = []
        self.digests = set()
        self.samples = []
        self.failures = []
        self.selftest = {}
        self.harness_error_samples = []
        self.known = report.load_known("C12")

    def setup(self):
        self.libs = c12_libs(self.seeds, self.cfg["nsynth"])
        self.libids = sorted(self.libs)
        import pickle
        path = os.path.join(campaign.scratch_dir(), "c12-%d.pickle" % time.monotonic_ns())
        with open(path, "wb") as fp:
            pickle.dump({"libs": self.libs}, fp, protocol=4)
        self.camp_path = path

    def specs_for_round(self, rno, n):
        return [gen_history(self.seeds, self.libids, rno, i) for i in range(n)]

    def account(self, spec, res):
        st = self.stats
        st["histories"] += 1
        if res.get("error"):
            st["harness_errors"] += 1
            if len(self.harness_error_samples) < 5:
                self.harness_error_samples.append(("history %s/%s" % (spec.get("round"), spec.get("index")),
                                                   res["error"][-700:]))
            return
        st["runs"] += len(res["runs"])
        st["fs_ops"] += res.get("nops", 0)
        st["workflow"][spec["workflow"]] = st["workflow"].get(spec["workflow"], 0) + 1
        for k, v in res.get("probes", {}).items():
            st["probes"][k] = st["probes"].get(k, 0) + v
        for a in res.get("ambiguous", []):
            st["ambiguous"][a] = st["ambiguous"].get(a, 0) + 1
        self.digests.add(res["digest"])
        self.run_log.append((spec.get("round", -1), spec.get("index", -1), res["digest"], len(res.get("violations", []))))
        # distinct non-trivial: a regeneration that had user-supplied state, by (library, workflow,
        # languages, multiset of op kinds before it)
        kinds = []
        for o in spec["ops"]:
            if o["op"] == "REGEN":
                if kinds:
                    self.states.add((spec["lib"], spec["workflow"], ",".join(spec["langs"]), ",".join(sorted(kinds))))
            else:
                kinds.append(o["op"] + ":" + str(o.get("lang")))
        if len(self.samples) < 3 and len(spec["ops"]) >= 4:
            self.samples.append({"lib": spec["lib"], "workflow": spec["workflow"], "langs": spec["langs"],
                                 "ops": [dict(o, body=o.get("body", [])[:2]) for o in spec["ops"][:8]],
                                 "digest": res["digest"]})
        if res.get("violations"):
            st["violating_histories"] += 1
            # a violation that matches no known finding decides the class of the history
            res["violations"].sort(key=lambda v: 0 if not report.match_known(
                self.known, self.signature({"violations": [v]})) else 1)
            self.failures.append((spec, res))

    def run_rounds(self):
        for rno in range(self.cfg["rounds"]):
            specs = self.specs_for_round(rno, self.cfg["per_round"])
            if self.args.dump_specs:
                print(digest_obj(specs))
                continue
            results = campaign.run_round(specs, self.camp_path, self.seeds, rno, executor=self.executor,
                                         workers=self.args.workers)
            for spec, res in zip(specs, results):
                self.account(spec, res)

    def self_tests(self):
        import subprocess, sys
        n = self.cfg["selftest"]
        specs = self.specs_for_round(0, n)
        base = campaign.run_round(copy.deepcopy(specs), self.camp_path, self.seeds, 0, executor=self.executor,
                                  workers=self.args.workers)
        pad = self.specs_for_round(777, campaign.NFACTORY)
        again = campaign.run_round(copy.deepcopy(pad + specs), self.camp_path, self.seeds, 0,
                                   executor=self.executor, workers=max(2, self.args.workers // 3))[len(pad):]
        mism = [i for i, (a, b) in enumerate(zip(base, again))
                if a.get("digest") != b.get("digest") or a.get("violations") != b.get("violations")]
        self.selftest["determinism_histories"] = n
        self.selftest["determinism_mismatches"] = len(mism)
        cmd = [sys.executable, os.path.join(report.VERIF, "sim", "cli.py"), "C12", "--tier", self.tier,
               "--seed", str(self.args.seed), "--dump-specs", "--rounds", "2", "--per-round", "60", "--no-evidence"]
        outs = []
        for hs in ("0", "4242"):
            p = subprocess.run(cmd, capture_output=True, text=True, env=dict(os.environ, PYTHONHASHSEED=hs),
                               timeout=600)
            outs.append(p.stdout.strip().splitlines()[-1] if p.stdout.strip() else "ERR " + p.stderr[-300:])
        self.selftest["generator_hashseed_independent"] = outs[0] == outs[1] and not outs[0].startswith("ERR")
        return not mism and self.selftest["generator_hashseed_independent"]

    def signature(self, res):
        v = res["violations"][0]
        pat = (v.get("detail") or {}).get("pattern", "")
        return "%s:%s%s" % (v["inv"], v["kind"], (":" + pat) if v["inv"].startswith("I12.2") else "")

    def process_failures(self, reporter):
        classes = {}
        for spec, res in self.failures:
            v = res["violations"][0]
            classes.setdefault((v["inv"], v["kind"]), []).append((spec, res))
        self.stats["violation_classes"] = len(classes)
        seen = set()
        done = 0
        order = sorted(classes, key=lambda k: (sum(1 for o in classes if o[0] == k[0] and o < k), str(k)))
        for key in order:
            if done >= self.cfg["min_classes"]:
                break
            spec, res = min(classes[key], key=lambda sr: (len(sr[0]["ops"]), sr[0]["round"], sr[0]["index"]))
            hs = res.get("hashseed")
            if report.match_known(self.known, self.signature(res)):
                # already recorded: no minimisation, one KNOWN-FINDING line per recorded finding
                for _ in classes[key]:
                    reporter.add(self.signature(res), None, "")
                continue

            def evaluate(cands, hs=hs):
                return campaign.run_round(cands, self.camp_path, self.seeds, 0, executor=self.executor,
                                          workers=self.args.workers, hashseed_override=hs)

            m = minimise.Minimiser(evaluate, key, budget=self.cfg["min_budget"],
                                   simplifiers=[simp_body, simp_langs],
                                   valid=lambda ops: any(o["op"] == "REGEN" for o in ops))
            small = m.run(spec)
            conf = evaluate([copy.deepcopy(small)])[0]
            if not minimise.has_class(conf, key):
                self.stats["harness_errors"] += 1
                self.harness_error_samples.append(("minimised history did not replay", json.dumps(small)[:300]))
                continue
            # the signature of the violation of *this* class (a run may also show recorded findings)
            vk = [x for x in conf["violations"] if (x["inv"], x["kind"]) == key][0]
            sig = self.signature({"violations": [vk]})
            if sig in seen:
                continue
            seen.add(sig)
            name = "%s-%s" % (self.tier, digest_obj([sig, small["ops"]])[:12])
            rp = report.write_replay("C12", name, {
                "property": "C12", "seed": self.args.seed, "hashseed": hs, "class": list(key),
                "signature": sig, "executor": self.executor, "spec": small,
                "lib": self.libs[small["lib"]], "expected": conf["violations"][:3],
                "digest": conf.get("digest"), "minimiser_executions": m.used,
                "original_length": len(spec["ops"]), "minimised_length": len(small["ops"]),
                "occurrences_in_batch": len(classes[key])})
            v = vk
            reporter.add(sig, rp, "%s %s lib=%s detail=%s" % (v["inv"], v["kind"], small["lib"],
                                                             json.dumps(v.get("detail"))[:260]))
            done += 1

    def coverage(self):
        st = self.stats
        wall = time.time() - self.t0
        return {
            "evaluations": st["histories"],
            "distinct_nontrivial": len(self.states),
            "rule": ("seeded histories of 1-6 regeneration cycles over one persistent simulated filesystem; "
                     "between cycles the user edits blocks in generated files, puts text outside markers, "
                     "sets splicer_code / declaration splicers / hand-written splicer files, unsets them, or "
                     "drops a declaration; non-trivial = a regeneration preceded by at least one user action, "
                     "distinct by (library, workflow, languages, sorted op kinds before it)"),
            "samples": self.samples,
            "regenerations": st["runs"],
            "regenerations_per_hour": int(st["runs"] / max(wall, 1e-6) * 3600),
            "histories_per_hour": int(st["histories"] / max(wall, 1e-6) * 3600),
            "simulated_time": "no simulated clock; logical steps = %d fs ops over %d regenerations" % (
                st["fs_ops"], st["runs"]),
            "workflows": st["workflow"],
            "probes": st["probes"],
            "probes_stuck_at_zero": [p for p in ("edit_gen", "edit_outside", "set_userfile", "set_code", "set_decl",
                                                 "evolve", "unset", "cycle_ge_3", "fixed_point_checked",
                                                 "blocks_judged_decl", "blocks_judged_splicer_code",
                                                 "blocks_judged_edited-generated-file", "blocks_judged_fed-back",
                                                 "blocks_judged_default", "blocks_judged_userfile-yaml",
                                                 "blocks_judged_userfile-cmdline")
                                     if not st["probes"].get(p)],
            "ambiguous_block_name_patterns_seen": st["ambiguous"],
            "fault_kinds_fired": {},
            "fault_note": "no I/O faults are injected for C12: the property promises nothing about an aborted "
                          "regeneration (shroud rewrites files in place); the 'faults' of this world are user "
                          "actions against persistent files between regenerations",
            "libraries": len(self.libids),
            "distinct_event_logs": len(self.digests),
            "run_digest": digest_obj(sorted(self.run_log)),
            "violating_histories": st["violating_histories"],
            "violation_classes": st.get("violation_classes", 0),
            "harness_errors": st["harness_errors"],
            "harness_error_samples": self.harness_error_samples[:5],
            "self_tests": self.selftest,
            "real_code": ["shroud/* from /repo working tree incl. splicer.get_splicers, _create_splicer, "
                          "write_lines", "PyYAML", "CPython text I/O layer"],
            "stubbed": ["filesystem (SimFS)", "environment (SimEnv)", "the user (seeded edit generator)"],
            "exhaustive": False,
        }

    assumptions = [
        "bodies never contain the marker strings, tabs or form feeds, and no line starts in column one with "
        "one of # @ ^ + - (outside the property's domain)",
        "block names that occur more than once in a library's outputs are not asserted individually "
        "(reported through the feedback fixed-point check instead)",
        "precedence asserted: declaration splicer > splicer_code > splicer files; no history supplies the "
        "same block through two *file* channels (undocumented)",
        "default body = the block generated for the same library without any splicer input",
    ]

    def main(self):
        if self.args.replay:
            return self.replay(self.args.replay)
        self.setup()
        self.run_rounds()
        if self.args.dump_specs:
            return 0
        ok = self.self_tests()
        rep = report.Reporter("C12")
        self.process_failures(rep)
        code = rep.finish()
        if not self.args.no_evidence:
            report.write_evidence("C12", self.tier, self.args.seed, "exploration", self.coverage(),
                                  time.time() - self.t0, len(rep.new), self.assumptions,
                                  extra={"known_findings_hit": sorted(rep.known_hits)})
        st = self.stats
        print("C12 %s: %d histories, %d regenerations, %d distinct non-trivial states, %d violating histories, "
              "%d harness errors, %.1fs" % (self.tier, st["histories"], st["runs"], len(self.states),
                                            st["violating_histories"], st["harness_errors"], time.time() - self.t0))
        rej = st["probes"].get("library_rejected", 0)
        if code == 0 and rej * 4 > max(1, st["histories"]):
            print("HARNESS-ERROR: the library was rejected by shroud itself in %d of %d histories; the check would be "
                  "vacuous" % (rej, st["histories"]))
            return report.EXIT_HARNESS
        if code == 0 and (not ok or st["harness_errors"]):
            print("HARNESS-ERROR: self-tests=%s harness_errors=%d %s" % (self.selftest, st["harness_errors"],
                                                                         self.harness_error_samples[:2]))
            return report.EXIT_HARNESS
        return code

    def replay(self, path):
        import pickle
        with open(path) as fp:
            rf = json.load(fp)
        cp = os.path.join(campaign.scratch_dir(), "c12-replay.pickle")
        with open(cp, "wb") as fp:
            pickle.dump({"libs": {rf["spec"]["lib"]: rf["lib"]}}, fp, protocol=4)
        res = campaign.run_round([copy.deepcopy(rf["spec"])], cp, self.seeds, 0, executor=self.executor,
                                 hashseed_override=rf.get("hashseed"))[0]
        print(json.dumps({"violations": res.get("violations"), "digest": res.get("digest"),
                          "error": res.get("error")}, indent=1)[:3000])
        if res.get("error"):
            print("HARNESS-ERROR: " + res["error"][-500:])
            return report.EXIT_HARNESS
        if minimise.has_class(res, tuple(rf["class"])):
            print("VIOLATION property=C12 replay=%s" % path)
            print("  event-log digest %s recorded one" % ("matches" if res.get("digest") == rf.get("digest") else "differs from"))
            return 1
        print("not reproduced on this tree")
        return 0


def simp_body(ops, k):
    """Shrink a body: fewer lines."""
    o = ops[k]
    body = o.get("body")
    if not body or len(body) <= 1:
        return []
    alts = []
    for i in range(len(body)):
        n = copy.deepcopy(ops)
        n[k]["body"] = [body[i]]
        alts.append(n)
    n = copy.deepcopy(ops)
    n[k]["body"] = body[: len(body) // 2]
    alts.append(n)
    return alts[:8]


def simp_langs(ops, k):
    return []


def main(argv):
    return C12Engine(gcheck.parse_args("C12", argv)).main()
