"""World-G check engine shared by C07 and C15.

Pipeline: job pool -> goldens (two fresh interpreters each; admission) ->
rounds of seeded histories in host factories -> self-tests -> minimise ->
replay-confirm -> replay file -> KNOWN-FINDING / VIOLATION lines -> evidence.
"""
import argparse
import copy
import json
import os
import subprocess
import sys
import time

from . import campaign, gen, jobs as J, minimise, pool, report, synth
from .seeds import Seeds, digest_obj

TIERS = {
    # pool sizes and history counts; counts, not wall-clock, so that a run is a
    # pure function of the seed
    "quick": dict(api=10, swarm=28, synth=24, poison=14, rounds=2, per_round=480,
                  selftest=24, min_classes=6, min_budget=120),
    "thorough": dict(api=40, swarm=220, synth=200, poison=42, rounds=36, per_round=960,
                     selftest=200, min_classes=12, min_budget=200),
}

DEFAULT_SEED = 20260928


def parse_args(prop, argv=None):
    ap = argparse.ArgumentParser(prog="vcheck " + prop)
    ap.add_argument("--tier", default=os.environ.get("VERIF_TIER", "quick"),
                    choices=["quick", "thorough"])
    ap.add_argument("--seed", type=int, default=int(os.environ.get("VERIF_SEED", DEFAULT_SEED)))
    ap.add_argument("--replay", default=None)
    ap.add_argument("--rounds", type=int, default=None)
    ap.add_argument("--per-round", type=int, default=None)
    ap.add_argument("--no-evidence", action="store_true")
    ap.add_argument("--workers", type=int, default=int(os.environ.get("VERIF_WORKERS", "16")))
    ap.add_argument("--dump-specs", action="store_true", help=argparse.SUPPRESS)
    ap.add_argument("--admitted", default=None, help=argparse.SUPPRESS)
    return ap.parse_args(argv)


class GEngine(object):
    prop = "C07"
    executor = "sim.history:execute_history_from_campaign"

    def __init__(self, args):
        self.args = args
        self.tier = args.tier
        self.cfg = dict(TIERS[self.tier])
        if args.rounds is not None:
            self.cfg["rounds"] = args.rounds
        if args.per_round is not None:
            self.cfg["per_round"] = args.per_round
        self.seeds = Seeds(args.seed)
        self.t0 = time.time()
        self.jobs = {}
        self.goldens = {}
        self.targets = []
        self.poisons = []
        self.api_ok = []
        self.stats = {"histories": 0, "histories_clean": 0, "histories_faulty": 0, "runs": 0,
                      "fs_ops": 0, "harness_errors": 0, "probes": {}, "faults_fired": {},
                      "violating_histories": 0}
        self.states = set()
        self.run_log = []
        self.hist_digests = set()
        self.samples = []
        self.failures = []  # (spec, result)
        self.golden_violations = []
        self.rejected_goldens = {}
        self.selftest = {}
        self.harness_error_samples = []

    # ------------------------------------------------------------ pool
    def build_pool(self):
        cfg = self.cfg
        corpus = J.corpus_jobs()
        for j in corpus:
            j.meta["cwd_free"] = True
        allj = list(corpus)
        allj += J.api_jobs()[: cfg["api"]] if cfg["api"] < 1000 else J.api_jobs()
        allj += pool.nopath_api_jobs()
        allj += pool.shared_splicer_jobs()
        allj += pool.swarm_jobs(self.seeds, cfg["swarm"], corpus)
        allj += synth.synth_jobs(self.seeds, cfg["synth"])
        poisons = pool.poison_jobs(self.seeds, cfg["poison"], corpus)
        return allj, poisons

    def admit_from_file(self, path):
        """Generator self-test mode: admission results are handed over, nothing is executed."""
        with open(path) as fp:
            adm = json.load(fp)
        allj, poisons = self.build_pool()
        self.jobs = {j.id: j for j in allj + poisons}
        self.targets = adm["targets"]
        self.poisons = adm["poisons"]
        self.api_ok = adm["api_ok"]
        self.goldens = {jid: {"trace": {"nops": n}} for jid, n in adm["nops"].items()}

    def admit(self):
        if self.args.admitted:
            return self.admit_from_file(self.args.admitted)
        allj, poisons = self.build_pool()
        G = campaign.compute_goldens(allj + poisons, self.seeds, workers=self.args.workers)
        admitted, rejected = 0, 0
        for j in allj + poisons:
            g1, g2 = G[j.id]
            if g1["status"] == "harness-error" or g2["status"] == "harness-error":
                self.stats["harness_errors"] += 1
                self.harness_error_samples.append(("golden " + j.id, (g1["message"] or g2["message"])[-400:]))
                continue
            is_poison = j.meta.get("source") == "poison"
            if g1["status"] == "ok" and g2["status"] == "ok" and not is_poison:
                # I7.1 golden stability: hash seed / clock / host / pid / env / cwd
                if g1["files"] != g2["files"]:
                    self.golden_violations.append((j, g1, g2))
                used = set(g1["trace"]["reads"]) | set(g1.get("probed", []))
                J.prune_files(j, used)
                self.jobs[j.id] = j
                self.goldens[j.id] = g1
                self.targets.append(j.id)
                if j.api:
                    self.api_ok.append(j.id)
                admitted += 1
            elif g1["status"] != "ok" and g2["status"] != "ok":
                # fails in a fresh process: usable only as an aborting predecessor
                used = set(g1["trace"]["reads"]) | set(g1.get("probed", []))
                J.prune_files(j, used)
                self.jobs[j.id] = j
                self.goldens[j.id] = g1
                self.poisons.append(j.id)
                self.rejected_goldens[j.id] = (g1, g2)
                rejected += 1
            elif not is_poison:
                # succeeds under one environment and fails under the other
                self.golden_violations.append((j, g1, g2))
            # (a deliberately invalid job that fails in one environment only is simply not used:
            # how invalid input is rejected is C17's business)
        # vacuity guard: plain upstream corpus jobs that do not even run in a fresh process
        plain = [j for j in allj if j.meta.get("source") == "corpus"]
        failed = [j.id for j in plain if j.id not in self.targets]
        self.stats["corpus_jobs_in_pool"] = len(plain)
        self.stats["corpus_jobs_failing_fresh"] = failed
        self.targets.sort()
        self.poisons.sort()
        self.stats["jobs_admitted"] = admitted
        self.stats["jobs_poison"] = rejected
        self.size_order = sorted(self.targets, key=lambda jid: (
            sum(len(t) for t in self.jobs[jid].files.values()), jid))
        self.camp_path = campaign.write_campaign(self.jobs, self.goldens)

    # ------------------------------------------------------------ rounds
    def make_gen(self, round_no):
        g = gen.HistoryGen(self.seeds, self.targets, self.poisons, self.goldens,
                           api_ok=self.api_ok, round_no=round_no)
        groups = {}
        for jid in self.targets:
            j = self.jobs[jid]
            key = "apinp" if jid.startswith("apinp/") else "yaml:" + str(j.meta.get("yaml"))
            groups.setdefault(key, []).append(jid)
        g.groups = {k: v for k, v in groups.items() if len(v) >= 2}
        return g

    def tweak_spec(self, spec):
        spec["prop"] = self.prop
        return spec

    def run_rounds(self):
        pairs_seen = set()
        for rno in range(self.cfg["rounds"]):
            g = self.make_gen(rno)
            g.pairs_seen = pairs_seen
            # alternate fault-free and fault-injecting batches
            with_faults = (rno % 2 == 1)
            specs = [self.tweak_spec(g.history(i, with_faults=with_faults))
                     for i in range(self.cfg["per_round"])]
            if self.args.dump_specs:
                print(digest_obj(specs))
                continue
            results = campaign.run_round(specs, self.camp_path, self.seeds, rno,
                                         executor=self.executor, workers=self.args.workers)
            for spec, res in zip(specs, results):
                g.note_result(spec, res)
                self.account(spec, res)
            pairs_seen = g.pairs_seen
        self.stats["ordered_pairs_seen"] = len(pairs_seen)

    def account(self, spec, res):
        st = self.stats
        st["histories"] += 1
        if res.get("error"):
            st["harness_errors"] += 1
            if len(self.harness_error_samples) < 5:
                self.harness_error_samples.append(("history %s" % spec.get("index"), res["error"][-600:]))
            return
        if spec.get("faulty"):
            st["histories_faulty"] += 1
        else:
            st["histories_clean"] += 1
        st["runs"] += len(res["runs"])
        st["fs_ops"] += res.get("nops", 0)
        for k, v in res.get("probes", {}).items():
            st["probes"][k] = st["probes"].get(k, 0) + v
        self.hist_digests.add(res["digest"])
        self.run_log.append((spec.get("round", -1), spec.get("index", -1), res["digest"],
                             len(res.get("violations", []))))
        prev = False
        for r in res["runs"]:
            for f in r.get("faults_fired", []):
                st["faults_fired"][f] = st["faults_fired"].get(f, 0) + 1
            if prev or r["kind"] == "FRESH":
                # non-trivial: the run had a predecessor in the same host (or ran on
                # a populated snapshot); distinct by (registry pre-state, job, fault)
                self.states.add((r["pre"], r["job"], ",".join(r.get("faults_fired", [])),
                                 r["entry"]))
            prev = True
        if len(self.samples) < 3 and len(res["runs"]) >= 3:
            self.samples.append({"ops": spec["ops"], "statuses": [r["status"] for r in res["runs"]],
                                 "digest": res["digest"], "hashseed": res.get("hashseed")})
        if res.get("violations"):
            st["violating_histories"] += 1
            self.failures.append((spec, res))

    # ------------------------------------------------------------ self tests
    def self_tests(self):
        """Determinism of the simulator itself (DESIGN.md section 9)."""
        n = self.cfg["selftest"]
        g = self.make_gen(0)
        specs = [self.tweak_spec(g.history(i, with_faults=(i % 2 == 1))) for i in range(n)]
        base = campaign.run_round(copy.deepcopy(specs), self.camp_path, self.seeds, 0,
                                  executor=self.executor, workers=self.args.workers)
        # second execution: other worker count, histories shifted to other factory
        # slots (same hash seed forced per history through single-spec rounds is
        # too slow; instead shift by NFACTORY so that slot -- hence hash seed -- is kept)
        pad = [self.tweak_spec(g.history(10_000 + i)) for i in range(campaign.NFACTORY)]
        again = campaign.run_round(copy.deepcopy(pad + specs), self.camp_path, self.seeds, 0,
                                   executor=self.executor, workers=max(2, self.args.workers // 3))
        again = again[len(pad):]
        mism = [i for i, (a, b) in enumerate(zip(base, again))
                if a.get("digest") != b.get("digest") or a.get("violations") != b.get("violations")]
        self.selftest["determinism_histories"] = n
        self.selftest["determinism_mismatches"] = len(mism)
        # the generator must not depend on the driver's own hash order
        adm = os.path.join(campaign.scratch_dir(), "admitted.json")
        with open(adm, "w") as fp:
            json.dump({"targets": self.targets, "poisons": self.poisons, "api_ok": self.api_ok,
                       "nops": {jid: g["trace"]["nops"] for jid, g in self.goldens.items()}}, fp)
        cmd = [sys.executable, os.path.join(report.VERIF, "sim", "cli.py"), self.prop,
               "--tier", self.tier, "--seed", str(self.args.seed), "--dump-specs",
               "--rounds", "2", "--per-round", "60", "--no-evidence", "--admitted", adm]
        outs = []
        for hs in ("0", "4242"):
            e = dict(os.environ, PYTHONHASHSEED=hs)
            p = subprocess.run(cmd, capture_output=True, text=True, env=e, timeout=600)
            outs.append(p.stdout.strip().splitlines()[-1] if p.stdout.strip() else "ERR " + p.stderr[-300:])
        self.selftest["generator_hashseed_independent"] = (outs[0] == outs[1] and not outs[0].startswith("ERR"))
        self.selftest["generator_digest"] = outs[0][:16]
        return not mism and self.selftest["generator_hashseed_independent"]

    # ------------------------------------------------------------ violations
    def signature(self, spec, res):
        """Specific identity of a (minimised) violation, used for known findings."""
        v = res["violations"][0]
        preds = [o for o in spec["ops"][: v["op_index"]]]
        shape = ">".join(o["op"] + ("!" if o.get("fault") else "") for o in spec["ops"])
        jobsrc = v["job"].split("/")[0]
        return "%s:%s:%s:%s:%s" % (v["inv"], v["kind"], os.path.basename(v.get("path", "")) or "-",
                                   shape, jobsrc)

    def simplifiers(self):
        return [minimise.simp_fresh, minimise.simp_fault, minimise.simp_entry, minimise.simp_dirty,
                minimise.simp_env, minimise.make_simp_job(self.size_order)]

    def evaluate_with(self, hashseed):
        def evaluate(cands):
            return campaign.run_round(cands, self.camp_path, self.seeds, 0, executor=self.executor,
                                      workers=self.args.workers, hashseed_override=hashseed)
        return evaluate

    def process_failures(self, reporter):
        classes = {}
        for spec, res in self.failures:
            v = res["violations"][0]
            key = (v["inv"], v["kind"], v["job"].split("/")[0], v.get("entry", ""))
            classes.setdefault(key, []).append((spec, res))
        self.stats["violation_classes"] = len(classes)
        done = 0
        seen_sigs = set()
        # round-robin over invariants so that one noisy class cannot hide the others
        order = sorted(classes, key=lambda k: (sum(1 for o in classes if o[:2] == k[:2] and o < k), str(k)))
        for key in order:
            if done >= self.cfg["min_classes"]:
                break
            # shortest failing history first
            spec, res = min(classes[key], key=lambda sr: (len(sr[0]["ops"]), sr[0].get("round", 0),
                                                          sr[0].get("index", 0)))
            hashseed = res.get("hashseed")
            cls = (key[0], key[1])
            m = minimise.Minimiser(self.evaluate_with(hashseed), cls, budget=self.cfg["min_budget"],
                                   simplifiers=self.simplifiers())
            small = m.run(spec)
            # confirm in a fresh factory process
            conf = self.evaluate_with(hashseed)([copy.deepcopy(small)])[0]
            if not minimise.has_class(conf, cls):
                # must never happen for a deterministic simulator: report as harness error
                self.stats["harness_errors"] += 1
                self.harness_error_samples.append(("minimised history did not replay", json.dumps(small)[:400]))
                continue
            # put the violation of this class first (a run can show several)
            conf["violations"].sort(key=lambda x: 0 if minimise.vclass(x) == cls else 1)
            sig = self.signature(small, conf)
            if sig in seen_sigs:
                continue
            seen_sigs.add(sig)
            name = "%s-%s" % (self.tier, digest_obj([sig, small["ops"]])[:12])
            used = set()
            for o in small["ops"]:
                for k in ("job", "src"):
                    if o.get(k):
                        used.add(o[k])
            rp = report.write_replay(self.prop, name, {
                "property": self.prop, "seed": self.args.seed, "hashseed": hashseed,
                "class": list(cls), "signature": sig, "executor": self.executor,
                "spec": small, "jobs": {jid: self.jobs[jid].to_json() for jid in sorted(used)},
                "expected": conf["violations"][:4], "digest": conf.get("digest"),
                "minimiser_executions": m.used,
                "original_length": len(spec["ops"]), "minimised_length": len(small["ops"]),
                "occurrences_in_batch": len(classes[key])})
            v = conf["violations"][0]
            summary = "%s %s %s job=%s detail=%s" % (v["inv"], v["kind"], v.get("path"), v["job"],
                                                     json.dumps(v.get("detail"))[:200])
            reporter.add(sig, rp, summary)
            done += 1
        for j, g1, g2 in self.golden_violations[:4]:
            diff = [p for p in set(g1["files"]) | set(g2["files"])
                    if g1["files"].get(p) != g2["files"].get(p)]
            sig = "golden-unstable:%s:%s" % (J.file_kind(diff[0]) if diff else "status", j.id.split("/")[0])
            rp = report.write_replay(self.prop, "%s-golden-%s" % (self.tier, digest_obj(j.id)[:10]), {
                "property": self.prop, "seed": self.args.seed, "class": ["golden-unstable", ""],
                "signature": sig, "golden_pair": True, "job": j.to_json(),
                "hashseeds": [self.seeds.hashseed("golden", j.id, 1), self.seeds.hashseed("golden", j.id, 2)],
                "envs": [g1.get("env_used"), g2.get("env_used")],
                "perturbed_environment": g2.get("perturbed_environment"),
                "differing": sorted(diff), "status": [g1["status"], g2["status"]]})
            reporter.add(sig, rp, "two fresh runs of %s differ in %s" % (j.id, sorted(diff)[:3]))

    # ------------------------------------------------------------ evidence
    def coverage(self):
        st = self.stats
        wall = time.time() - self.t0
        return {
            "evaluations": st["histories"],
            "distinct_nontrivial": len(self.states),
            "rule": ("seeded histories of 2-8 ops (RUN/POISON/RUN+fault/DIRTY/ENV/FRESH) over a per-"
                     "history pool of 3-6 jobs, coverage-biased towards unvisited ordered job pairs; "
                     "a case counts as non-trivial when a judged or faulted run had at least one "
                     "predecessor in the same interpreter (or ran on a populated snapshot) and is "
                     "distinct by (digest of shroud's global registries before the run, job id, "
                     "faults fired, entry point)"),
            "samples": self.samples,
            "simulated_runs": st["runs"],
            "simulated_runs_per_hour": int(st["runs"] / max(wall, 1e-6) * 3600),
            "histories_per_hour": int(st["histories"] / max(wall, 1e-6) * 3600),
            "histories_fault_free": st["histories_clean"],
            "histories_fault_injecting": st["histories_faulty"],
            "distinct_event_logs": len(self.hist_digests),
            "run_digest": digest_obj(sorted(self.run_log)),
            "simulated_time": "no simulated clock (shroud has no timers); logical steps = %d fs ops "
                              "over %d runs" % (st["fs_ops"], st["runs"]),
            "fault_kinds_fired": st["faults_fired"],
            "probes": st["probes"],
            "probes_stuck_at_zero": [p for p in self.expected_probes() if not st["probes"].get(p)],
            "jobs_admitted": st.get("jobs_admitted"),
            "corpus_jobs_failing_in_fresh_process": st.get("corpus_jobs_failing_fresh"),
            "jobs_used_as_aborting_predecessors": st.get("jobs_poison"),
            "ordered_job_pairs_seen": st.get("ordered_pairs_seen"),
            "violating_histories": st["violating_histories"],
            "violation_classes": st.get("violation_classes", 0),
            "harness_errors": st["harness_errors"],
            "harness_error_samples": self.harness_error_samples[:5],
            "self_tests": self.selftest,
            "seeds": {"VERIF_SEED": self.args.seed,
                      "hash_seeds": "derived per factory slot and round from VERIF_SEED"},
            "real_code": ["shroud/* from /repo working tree (parser, generate, wrapc/f/p/l, splicer, main, "
                          "create_wrapper)", "PyYAML", "CPython text I/O layer"],
            "stubbed": ["filesystem below RawIOBase (SimFS)", "cwd/environ/clock/host/user/pid (SimEnv)",
                        "stdout"],
            "exhaustive": False,
        }

    def expected_probes(self):
        return ["run_with_predecessor", "rerun_same_job", "preexisting_longer", "preexisting_shorter",
                "env_op", "run_in_other_cwd", "fresh_runs", "entry_args", "entry_api", "entry_args_reuse",
                "fault_fired_open_eacces", "fault_fired_write_enospc", "fault_fired_close_eio",
                "fault_fired_open_enoent", "abort_left_open_handles"]

    assumptions = [
        "the simulator samples histories; a clean batch is evidence, not proof",
        "shroud reaches the filesystem only through open()/os.path.isdir/isfile (checked: a write "
        "outside the simulated root is reported as a violation)",
        "golden = the same job in a fresh interpreter with empty output directories, from the same tree",
    ]

    # ------------------------------------------------------------ main
    def main(self):
        if self.args.replay:
            return self.replay(self.args.replay)
        self.admit()
        if len(self.targets) < 3:
            # nothing (or next to nothing) runs in a fresh process: the check could only be vacuous
            sample = [(jid, (g[0].get("message") or "")[-200:]) for jid, g in sorted(self.rejected_goldens.items())[:3]]
            print("HARNESS-ERROR: only %d of the pool's jobs run in a fresh process (the seam does not "
                  "support what this tree does, or shroud fails on everything): %s" % (len(self.targets), sample))
            return report.EXIT_HARNESS
        if self.args.dump_specs:
            self.run_rounds()
            return 0
        self.run_rounds()
        ok = self.self_tests()
        rep = report.Reporter(self.prop)
        self.process_failures(rep)
        code = rep.finish()
        if not self.args.no_evidence:
            cov = self.coverage()
            report.write_evidence(self.prop, self.tier, self.args.seed, "exploration", cov,
                                  time.time() - self.t0, len(rep.new), self.assumptions,
                                  extra={"known_findings_hit": sorted(rep.known_hits)})
        st = self.stats
        print("%s %s: %d histories, %d runs, %d distinct non-trivial states, %d violating histories, "
              "%d harness errors, %.1fs" % (self.prop, self.tier, st["histories"], st["runs"],
                                            len(self.states), st["violating_histories"],
                                            st["harness_errors"], time.time() - self.t0))
        if code == 0 and (not ok or st["harness_errors"]):
            print("HARNESS-ERROR: self-tests=%s harness_errors=%d %s" % (
                self.selftest, st["harness_errors"], self.harness_error_samples[:2]))
            return report.EXIT_HARNESS
        nplain = st.get("corpus_jobs_in_pool", 0)
        nfail = len(st.get("corpus_jobs_failing_fresh", []))
        if code == 0 and nplain and nfail * 5 > nplain:
            # nothing was violated, but little was explored: do not report "held"
            print("HARNESS-ERROR: %d of %d plain upstream corpus jobs fail in a fresh process on this tree "
                  "(e.g. %s); the check would be vacuous" % (nfail, nplain, st["corpus_jobs_failing_fresh"][:3]))
            return report.EXIT_HARNESS
        return code

    def replay(self, path):
        with open(path) as fp:
            rf = json.load(fp)
        if rf.get("must_succeed"):
            job = J.Job.from_json(rf["job"])
            g1 = campaign.fresh_run(job, campaign.ENV_A, rf["hashseed"])
            print(json.dumps({"status": g1["status"], "message": g1.get("message", "")[-300:]}))
            if g1["status"] != "ok":
                print("VIOLATION property=%s replay=%s" % (self.prop, path))
                return 1
            print("not reproduced")
            return 0
        if rf.get("golden_pair"):
            job = J.Job.from_json(rf["job"])
            envs = rf.get("envs") or [campaign.ENV_A, campaign.ENV_B]
            g1 = campaign.fresh_run(job, envs[0] or campaign.ENV_A, rf["hashseeds"][0])
            jb = job.clone(cwd="/sim/other/cwd") if job.meta.get("cwd_free") else job
            g2 = campaign.fresh_run(jb, envs[1] or campaign.ENV_B, rf["hashseeds"][1])
            if g1["files"] != g2["files"] or g1["status"] != g2["status"]:
                print("VIOLATION property=%s replay=%s" % (self.prop, path))
                return 1
            print("not reproduced")
            return 0
        jobs = {jid: J.Job.from_json(d) for jid, d in rf["jobs"].items()}
        G = campaign.compute_goldens(list(jobs.values()), self.seeds, workers=self.args.workers)
        goldens = {jid: g[0] for jid, g in G.items()}
        camp = campaign.write_campaign(jobs, goldens, "replay")
        res = campaign.run_round([copy.deepcopy(rf["spec"])], camp, self.seeds, 0,
                                 executor=rf.get("executor", self.executor),
                                 hashseed_override=rf.get("hashseed"))[0]
        print(json.dumps({"violations": res.get("violations"), "digest": res.get("digest"),
                          "error": res.get("error"),
                          "runs": [(r["job"], r["entry"], r["status"]) for r in res.get("runs", [])]},
                         indent=1))
        if res.get("error"):
            print("HARNESS-ERROR: " + res["error"][-500:])
            return report.EXIT_HARNESS
        if minimise.has_class(res, tuple(rf["class"])):
            same = res.get("digest") == rf.get("digest")
            print("VIOLATION property=%s replay=%s" % (self.prop, path))
            print("  event-log digest %s recorded one" % ("matches" if same else "differs from"))
            return 1
        print("not reproduced on this tree")
        return 0
