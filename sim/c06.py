"""C06: wrapped objects and returned memory are released exactly once, never early.

World R: the system under test is *generated code*.  shroud (from /repo's working tree)
generates C, Fortran and Python wrappers for an instrumented subject library; everything is
compiled with AddressSanitizer; drivers interpret seeded op sequences; an allocator seam
(__sanitizer_install_malloc_and_free_hooks) attributes every heap block to a phase
(driver / wrapper / library) and reports, after every op, the live subject objects, the
outstanding caller-owned handouts and the wrapper-phase blocks still alive.  A reference
model (sim/c06model.py) predicts all of that.
"""
import concurrent.futures as cf
import copy
import json
import os
import re
import shutil
import subprocess
import sys
import time

import yaml

from . import campaign, gcheck, minimise, report
from . import c06model as M
from .seeds import Seeds, digest_obj

REPO = os.environ.get("SHROUD_REPO", "/repo")
SUBJECT = os.path.join(report.VERIF, "c06", "subject")
SUBJECT_C = os.path.join(report.VERIF, "c06", "subject_c")
# drivers of the C++ subject (simlib) and of the C subject (simc, language: c code paths)
CXX_DRIVERS = ("f", "py", "c", "fc", "cc")
C_DRIVERS = ("fc", "cc")
PY = sys.executable
DRIVERS = ("f", "py", "c", "fc", "cc")

CXXFLAGS = ["-g", "-O0", "-std=c++11", "-fsanitize=address", "-fno-omit-frame-pointer", "-fPIC", "-w"]
CFLAGS = ["-g", "-O0", "-std=c99", "-fsanitize=address", "-fno-omit-frame-pointer", "-w"]
FFLAGS = ["-g", "-O0", "-cpp", "-ffree-form", "-fsanitize=address", "-fPIC", "-w"]

# A second wrapped library in the same process (Fortran driver of the full C++ variants): another
# name, another prefix, another destructor table.  Nothing of it is ever called; it is only *there*,
# loaded first, the way two shroud-wrapped libraries meet in one application.
COMPANION_YAML = """library: simtwo
cxx_header: simlib.hpp
format:
  C_prefix: SIB_
options:
  debug: True
  wrap_python: False
  wrap_lua: False
declarations:
- decl: template<typename T> class Holder
  cxx_template:
  - instantiation: <int>
  - instantiation: <double>
  declarations:
  - decl: Holder(int v)
  - decl: ~Holder() +name(delete)
  - decl: T get() const
- decl: const std::string *strOwned(int n) +owner(caller)
- decl: std::string strVal(int n)
- decl: std::vector<int> vecRet(int n)
- decl: int *arrNew(int n, int *len +intent(out)+hidden) +dimension(len)+owner(caller)
"""


def py_include():
    import sysconfig
    return sysconfig.get_paths()["include"]


def libasan():
    return subprocess.run(["gcc", "-print-file-name=libasan.so"], capture_output=True, text=True).stdout.strip()


# ------------------------------------------------------------------ variants
EXTRA_DECLS = [
    "- decl: class Extra1\n  declarations:\n  - decl: Extra1()\n  - decl: ~Extra1()\n",
    "- decl: class Extra2\n  declarations:\n  - decl: Extra2()\n  - decl: ~Extra2()\n",
    "- decl: std::vector<double> extraVecD(int n)\n  options:\n    wrap_python: False\n",
    "- decl: const std::string *extraStrOwned() +owner(caller)\n  options:\n    wrap_python: False\n",
    "- decl: Extra1 *extraMake1() +owner(caller)\n",
]


def split_decls(text):
    """Split the YAML text into (head, [top-level declaration blocks])."""
    head, _, rest = text.partition("declarations:\n")
    # top-level sections after the declarations (patterns: ...) stay where they are
    m = re.search(r"^[A-Za-z_]+:", rest, re.M)
    tail = ""
    if m:
        rest, tail = rest[:m.start()], rest[m.start():]
    blocks = []
    cur = []
    for line in rest.split("\n"):
        if line.startswith("- decl:") and cur:
            blocks.append("\n".join(cur) + "\n")
            cur = []
        if line.strip() or cur:
            cur.append(line)
    if cur:
        blocks.append("\n".join(l for l in cur if l.strip()) + "\n")
    return head + "declarations:\n", blocks, tail


def make_variant_c(rng, base_text, index):
    """C subject: permute the function declarations, toggle comment-only / wrapper-forcing options."""
    head, blocks, tail = split_decls(base_text)
    structs = [b for b in blocks if b.startswith("- decl: struct")]
    funcs = [b for b in blocks if not b.startswith("- decl: struct")]
    rng.shuffle(funcs)
    opts = {}
    for name in ("debug", "literalinclude", "C_force_wrapper", "F_force_wrapper", "doxygen"):
        if rng.random() < 0.4:
            opts[name] = rng.choice([True, False])
    d = yaml.safe_load(head)
    d["options"].update(opts)
    head2 = yaml.safe_dump({k: v for k, v in d.items() if k != "declarations"}, sort_keys=False)
    return head2 + "declarations:\n" + "".join(structs + funcs) + tail, {"variant": "c%d" % index, "subject": "simc",
                                                                         "options": opts}


def make_variant(rng, base_text, index):
    """Permute declaration order, insert extra classes/functions (they shift the destructor
    table) and toggle options that keep the wrapped API unchanged."""
    if index == 0:
        return base_text, {"variant": "base"}
    head, blocks, tail = split_decls(base_text)
    classes = [b for b in blocks if b.startswith(("- decl: class", "- decl: template", "- decl: struct"))]
    funcs = [b for b in blocks if not b.startswith(("- decl: class", "- decl: template", "- decl: struct"))]
    extras = rng.sample(EXTRA_DECLS, rng.randint(0, len(EXTRA_DECLS)))
    extra_classes = [e for e in extras if e.startswith("- decl: class")]
    extra_funcs = [e for e in extras if not e.startswith("- decl: class")]
    if any("Extra1 *" in e for e in extra_funcs) and not any("class Extra1" in e for e in extra_classes):
        extra_classes.append(EXTRA_DECLS[0])
    classes = classes + extra_classes
    rng.shuffle(classes)
    funcs = funcs + extra_funcs
    rng.shuffle(funcs)
    opts = {}
    for name in ("debug", "literalinclude", "C_force_wrapper", "F_force_wrapper", "doxygen"):
        if rng.random() < 0.4:
            opts[name] = rng.choice([True, False])
    if rng.random() < 0.3:
        opts["C_line_length"] = rng.choice([60, 100])
    d = yaml.safe_load(head)
    d["options"].update(opts)
    head2 = yaml.safe_dump({k: v for k, v in d.items() if k != "declarations"}, sort_keys=False)
    text = head2 + "declarations:\n" + "".join(classes + funcs) + tail
    return text, {"variant": "v%d" % index, "options": opts, "extras": len(extras)}


def decl_name(block):
    first = block.split("\n", 1)[0]
    m = re.match(r"- decl: (?:template<[^>]*> )?(?:class|namespace|struct) (\w+)", first)
    if m:
        return m.group(1)
    m = re.search(r"(\w+)\s*\(", first)
    return m.group(1) if m else first


# what a subset variant is built around: declarations that give the library exactly one (or two)
# kinds of releasable memory
SUBSET_RECIPES = [("arrNew",), ("arrNew", "arrNewPat"), ("arrNew", "arrFillPtr"), ("arrNew", "arrGrabRef", "arrFillPtr"), ("strOwned",), ("vecRet",), ("Item",), ("Holder",),
                  ("arrNewAlloc",), ("vecRetD",), ("vecAlloc",), ("Box", "makeBox"), ("strVal",), ("deep",),
                  ("Item", "makeItem", "copyItem"), ("vecIota", "vecAlloc", "vecRet"),
                  ("Pt", "ptSum", "ptOut"), ("Arr", "arrTotal"), ("Bag",), ("Rec", "recSum"), ("Pt", "Arr", "arrTotal", "ptScale")]
# not in F_CFI variants: std::vector results (shroud cannot generate them), char** (other Fortran
# interface), strFinal (its user-written 'final' clause is a c_buf statement, there is no such hook
# for the CFI wrapper)
CFI_UNSUPPORTED = ("arrSquares", "vecRet", "vecRetD", "deep", "extraVecD", "charArrLen", "strFinal")
NEEDS_CLASS = {"recSum": "Rec", "ptSum": "Pt", "ptOut": "Pt", "ptScale": "Pt", "arrTotal": "Arr", "makeItem": "Item", "borrowItem": "Item", "defaultItem": "Item", "copyItem": "Item", "useItem": "Item",
               "sumItems": "Item", "passItem": "Item", "refItem": "Item", "makeBox": "Box"}
# declarations that (as documented) hand nothing to the caller that needs releasing
NEUTRAL = ["strCountChar", "arrSquares", "arrSumD", "charArrTwo", "arrInOut", "strRef", "strLib", "strIn", "charOut", "charRet", "charInout", "arrLib", "arrSum", "arrFillOut",
           "charGrow", "charArrLen", "arrWeights", "charRetLen", "charRetNull", "strPtrIn", "vecSum", "vecDot"]


def make_variant_subset(rng, base_text, index):
    """Wrap only some of the declarations: the destructor table, the helper set and the order of
    everything generated depend on *which* declarations a library has, down to a library with a
    single kind of releasable memory."""
    head, blocks, tail = split_decls(base_text)
    names = [decl_name(b) for b in blocks]
    mode = rng.random()
    if mode < 0.6:
        keep = set(rng.choice(SUBSET_RECIPES))
        if rng.random() < 0.3:
            keep |= set(rng.choice(SUBSET_RECIPES))
        keep |= set(n for n in NEUTRAL if rng.random() < 0.35)
    else:
        p = rng.choice([0.15, 0.3, 0.5, 0.75])
        keep = set(n for n in names if rng.random() < p)
    for fn, cls in NEEDS_CLASS.items():
        if fn in keep and cls not in keep:
            keep.discard(fn)
    if not keep:
        keep = {"arrNew"}
    kept = [b for b, n in zip(blocks, names) if n in keep]
    classes = [b for b in kept if b.startswith(("- decl: class", "- decl: template", "- decl: struct"))]
    funcs = [b for b in kept if not b.startswith(("- decl: class", "- decl: template", "- decl: struct"))]
    rng.shuffle(classes)
    rng.shuffle(funcs)
    if "arrNewPat" not in keep:
        tail = ""  # the patterns: section belongs to arrNewPat
    text = head + "".join(classes + funcs) + tail
    return text, {"variant": "s%d" % index, "subset": sorted(keep)}


def filter_driver(text, lang, have_ops):
    """Drop the branches of ops whose declarations this variant does not wrap."""
    start = re.compile(r'\s*else if \(!strcmp\(op, "(\w+)"\)\)' if lang == "c" else r'\s*case \("(\w+)"\)')
    stop = re.compile(r'\s*(#|else if \(|else printf|/\* ----)' if lang == "c" else r'\s*(#|case \(|end select)')
    out, skipping = [], False
    for line in text.split("\n"):
        m = start.match(line)
        if m:
            skipping = m.group(1) not in have_ops
        elif skipping and stop.match(line):
            skipping = False
        if not skipping:
            out.append(line)
    return "\n".join(out)


# ------------------------------------------------------------------ build
class Build(object):
    def __init__(self, workdir, yaml_text, drivers, tag, lib="simlib"):
        self.dir = workdir
        self.yaml_text = yaml_text
        self.drivers = list(drivers)
        self.tag = tag
        self.lib = lib  # "simlib" (C++ subject) or "simc" (C subject)
        self.ok = {}
        self.errors = {}
        self.gen_files = []
        self.have = None  # subset variants: the wrapped declaration names
        self.companion = False  # link the Fortran driver against a second wrapped library as well

    def defines(self):
        """-D flags for the drivers: which classes / helper types / ops this build has."""
        ops = set()
        for d in self.drivers:
            ops |= set(M.ops_for({"fc": "fc", "cc": "cc"}.get(d, d), self.have))
        flags = ["-DOP_" + o for o in sorted(ops)]
        if self.lib == "simc":
            return flags + ["-DHAVE_ARRAY", "-DHAVE_COPYSTRING"]
        def has(fname, word):
            try:
                with open(os.path.join(self.dir, fname)) as fp:
                    return word in fp.read()
            except OSError:
                return False
        for cls in ("Item", "Box", "Holder", "deep", "Pt", "Bag", "Rec"):
            if self.have is None or cls in self.have:
                flags.append("-DHAVE_" + cls)
        if has("typessimlib.h", "SIM_SHROUD_array"):
            flags.append("-DHAVE_ARRAY")
        if has("wrapsimlib.cpp", "SIM_ShroudCopyStringAndFree") or has("utilsimlib.cpp", "SIM_ShroudCopyStringAndFree"):
            flags.append("-DHAVE_COPYSTRING")
        if has("wrapfsimlib.f", "type SIM_SHROUD_capsule\n"):
            flags.append("-DHAVE_FCAPSULE")
        return flags

    def sh(self, argv, **kw):
        return subprocess.run(argv, cwd=self.dir, capture_output=True, text=True, **kw)

    def generate(self):
        os.makedirs(self.dir, exist_ok=True)
        for f in os.listdir(SUBJECT):
            if f != "simlib.yaml":
                shutil.copy(os.path.join(SUBJECT, f), self.dir)
        if self.lib == "simc":
            for f in os.listdir(SUBJECT_C):
                if f != "simc.yaml":
                    shutil.copy(os.path.join(SUBJECT_C, f), self.dir)
        os.makedirs(os.path.join(self.dir, "numpy"), exist_ok=True)
        shutil.copy(os.path.join(SUBJECT, "numpy_stub.h"), os.path.join(self.dir, "numpy", "arrayobject.h"))
        with open(os.path.join(self.dir, self.lib + ".yaml"), "w") as fp:
            fp.write(self.yaml_text)
        code = ("import sys; sys.path.insert(0, %r); import shroud.main\n" % REPO)
        if self.companion:
            # the way a build script wraps two libraries: one Python process, the companion first
            two = os.path.join(self.dir, "two")
            os.makedirs(two, exist_ok=True)
            shutil.copy(os.path.join(SUBJECT, "simlib.hpp"), two)
            shutil.copy(os.path.join(SUBJECT, "simhook.h"), two)
            with open(os.path.join(two, "simtwo.yaml"), "w") as fp:
                fp.write(COMPANION_YAML)
            code += ("sys.argv=['shroud','--outdir',%r,'--logdir',%r,%r]\n"
                     "try:\n    shroud.main.main()\nexcept SystemExit as e:\n    assert e.code in (None, 0), e.code\n"
                     % (two, two, os.path.join(two, "simtwo.yaml")))
        code += ("sys.argv=['shroud','--outdir',%r,'--logdir',%r,%r]; shroud.main.main()\n"
                 % (self.dir, self.dir, os.path.join(self.dir, self.lib + ".yaml")))
        p = self.sh([PY, "-c", code], timeout=300)
        if p.returncode != 0:
            self.errors["generate"] = (p.stdout + p.stderr)[-1500:]
            return False
        if self.have is not None:
            for name, lang, drv in (("drv_c.c", "c", "c"), ("drv_f.f90", "f", "f")):
                with open(os.path.join(self.dir, name)) as fp:
                    src = fp.read()
                with open(os.path.join(self.dir, name), "w") as fp:
                    fp.write(filter_driver(src, lang, set(M.ops_for(drv, self.have))))
            # reach: how many entries the library's release function switches over
            try:
                with open(os.path.join(self.dir, "wrapsimlib.cpp")) as fp:
                    body = fp.read().split("SIM_SHROUD_memory_destructor", 1)[1]
                self.meta_table = len(re.findall(r"^    case \d+:", body, re.M))
            except (OSError, IndexError):
                self.meta_table = -1
        self.gen_files = sorted(os.listdir(self.dir))
        return True

    def compile_c_subject(self, workers=16):
        """language: c subject: generated *.c compiled as C, Fortran module, drivers with -DSIMC."""
        files = self.gen_files
        gen_c = [f for f in files if f.endswith(".c") and (f.startswith("wrap") or f.startswith("util"))]
        jobs = [(f, ["gcc"] + CFLAGS + ["-c", f, "-o", f[:-2] + ".o"]) for f in gen_c]
        jobs += [(f, ["g++"] + CXXFLAGS + ["-c", f, "-o", f[:-4] + ".o"]) for f in ("simc_impl.cpp", "simhook.cpp")]
        if "cc" in self.drivers:
            jobs.append(("drv_c.c", ["gcc"] + CFLAGS + self.defines() + ["-DSIMC", "-c", "drv_c.c", "-o", "drv_c.o"]))
        errs = {}

        def run(job):
            name, argv = job
            p = self.sh(argv, timeout=600)
            if p.returncode != 0:
                errs[name] = p.stderr[-1200:]

        with cf.ThreadPoolExecutor(max_workers=workers) as ex:
            list(ex.map(run, jobs))
        objs = [f[:-2] + ".o" for f in gen_c] + ["simc_impl.o", "simhook.o"]
        ok_lib = not any(k in errs for k in gen_c + ["simc_impl.cpp", "simhook.cpp"])
        if "fc" in self.drivers:
            good = ok_lib
            ff = [f for f in files if f.endswith(".f")]
            for f in ff:
                p = self.sh(["gfortran"] + FFLAGS + ["-c", f, "-o", f[:-2] + ".o"], timeout=600)
                if p.returncode != 0:
                    errs[f] = p.stderr[-1200:]
                    good = False
            if good:
                p = self.sh(["gfortran"] + FFLAGS + self.defines() + ["-DSIMC", "-c", "drv_f.f90", "-o", "drv_f.o"], timeout=600)
                if p.returncode != 0:
                    errs["drv_f.f90"] = p.stderr[-1200:]
                    good = False
            if good:
                p = self.sh(["gfortran", "-fsanitize=address"] + objs + [f[:-2] + ".o" for f in ff] +
                            ["drv_f.o", "-lstdc++", "-o", "drv_f"], timeout=600)
                if p.returncode != 0:
                    errs["link drv_f"] = p.stderr[-1200:]
                    good = False
            self.ok["fc"] = good
        if "cc" in self.drivers:
            good = ok_lib and "drv_c.c" not in errs
            if good:
                p = self.sh(["g++", "-fsanitize=address"] + objs + ["drv_c.o", "-o", "drv_c"], timeout=600)
                if p.returncode != 0:
                    errs["link drv_c"] = p.stderr[-1200:]
                    good = False
            self.ok["cc"] = good
        self.errors.update(errs)
        return self.ok

    def compile(self, workers=16):
        if self.lib == "simc":
            return self.compile_c_subject(workers)
        files = self.gen_files
        cxx = [f for f in files if f.endswith(".cpp") and not f.startswith("py") and not f.startswith("lua")]
        pycxx = [f for f in files if f.endswith(".cpp") and f.startswith("py")] + ["simlib.cpp", "simhook.cpp"]
        jobs = []
        for f in cxx:
            jobs.append((f, ["g++"] + CXXFLAGS + ["-c", f, "-o", f[:-4] + ".o"]))
        if "py" in self.drivers:
            for f in pycxx:
                jobs.append(("py:" + f, ["g++"] + CXXFLAGS + ["-I" + py_include(), "-I" + self.dir, "-c", f, "-o",
                                                           "py_" + f[:-4] + ".o"]))
        if "c" in self.drivers:
            jobs.append(("drv_c.c", ["gcc"] + CFLAGS + self.defines() + ["-c", "drv_c.c", "-o", "drv_c.o"]))
        errs = {}

        def run(job):
            name, argv = job
            p = self.sh(argv, timeout=600)
            if p.returncode != 0:
                errs[name] = p.stderr[-1200:]

        with cf.ThreadPoolExecutor(max_workers=workers) as ex:
            list(ex.map(run, jobs))
        base_objs = [f[:-4] + ".o" for f in cxx]
        lib_objs = [o for o in base_objs]
        ok_lib = not any(k in errs for k in cxx)
        if "f" in self.drivers:
            ff = [f for f in files if f.endswith(".f")]
            good = ok_lib
            pending = list(ff)
            for _pass in range(3):
                failed = []
                for f in pending:
                    p = self.sh(["gfortran"] + FFLAGS + ["-c", f, "-o", f[:-2] + ".o"], timeout=600)
                    if p.returncode != 0:
                        failed.append((f, p.stderr[-1200:]))
                if not failed or len(failed) == len(pending):
                    break
                pending = [f for f, _ in failed]
            for f, e in failed:
                errs[f] = e
                good = False
            if good:
                p = self.sh(["gfortran"] + FFLAGS + self.defines() + ["-c", "drv_f.f90", "-o", "drv_f.o"], timeout=600)
                if p.returncode != 0:
                    errs["drv_f.f90"] = p.stderr[-1200:]
                    good = False
            if good and self.companion:
                good = self.link_with_companion(lib_objs, [f[:-2] + ".o" for f in ff], errs)
            elif good:
                p = self.sh(["gfortran", "-fsanitize=address"] + lib_objs + [f[:-2] + ".o" for f in ff] +
                            ["drv_f.o", "-lstdc++", "-o", "drv_f"], timeout=600)
                if p.returncode != 0:
                    errs["link drv_f"] = p.stderr[-1200:]
                    good = False
            self.ok["f"] = good
        if "c" in self.drivers:
            good = ok_lib and "drv_c.c" not in errs
            if good:
                p = self.sh(["g++", "-fsanitize=address"] + lib_objs + ["drv_c.o", "-o", "drv_c"], timeout=600)
                if p.returncode != 0:
                    errs["link drv_c"] = p.stderr[-1200:]
                    good = False
            self.ok["c"] = good
        if "py" in self.drivers:
            good = not any(k.startswith("py:") for k in errs)
            if good:
                import sysconfig
                so = "simlib" + sysconfig.get_config_var("EXT_SUFFIX")
                p = self.sh(["g++", "-shared", "-fsanitize=address"] + ["py_" + f[:-4] + ".o" for f in pycxx] +
                            ["-o", so], timeout=600)
                if p.returncode != 0:
                    errs["link py"] = p.stderr[-1200:]
                    good = False
            self.ok["py"] = good
        self.errors.update(errs)
        return self.ok

    def link_with_companion(self, lib_objs, f_objs, errs):
        """drv_f = driver + libsimtwo.so (the companion, first) + libsimone.so (the wrappers under
        test) + libsimsubj.so (the one copy of the subject library and the allocator seam)."""
        two = os.path.join(self.dir, "two")
        steps = []
        tcpp = sorted(f for f in os.listdir(two) if f.endswith(".cpp"))
        tf = sorted(f for f in os.listdir(two) if f.endswith(".f"))
        for f in tcpp:
            steps.append(("two:" + f, ["g++"] + CXXFLAGS + ["-I" + two, "-c", os.path.join(two, f), "-o",
                                                           os.path.join(two, f[:-4] + ".o")]))
        for f in tf:
            steps.append(("two:" + f, ["gfortran"] + FFLAGS + ["-J" + two, "-c", os.path.join(two, f), "-o",
                                                              os.path.join(two, f[:-2] + ".o")]))
        subj = ["simlib.o", "simhook.o"]
        wrappers = [o for o in lib_objs if o not in subj]
        steps.append(("libsimsubj", ["g++", "-shared", "-fsanitize=address"] + subj + ["-o", "libsimsubj.so"]))
        steps.append(("libsimtwo", ["g++", "-shared", "-fsanitize=address"] +
                      [os.path.join(two, f[:-4] + ".o") for f in tcpp] + [os.path.join(two, f[:-2] + ".o") for f in tf] +
                      ["-L.", "-lsimsubj", "-lgfortran", "-o", "libsimtwo.so"]))
        steps.append(("libsimone", ["g++", "-shared", "-fsanitize=address"] + wrappers + f_objs +
                      ["-L.", "-lsimsubj", "-lgfortran", "-o", "libsimone.so"]))
        steps.append(("link drv_f", ["gfortran", "-fsanitize=address", "drv_f.o", "-L.", "-lsimtwo", "-lsimone",
                                     "-lsimsubj", "-Wl,-rpath," + self.dir, "-lstdc++", "-o", "drv_f"]))
        for name, argv in steps:
            p = self.sh(argv, timeout=600)
            if p.returncode != 0:
                errs[name] = p.stderr[-1200:]
                return False
        return True

    def command(self, driver, opsfile):
        env = dict(os.environ)
        env["ASAN_OPTIONS"] = "detect_leaks=0:abort_on_error=0:halt_on_error=1:allocator_may_return_null=1:" \
                              "alloc_dealloc_mismatch=1:exitcode=66:detect_stack_use_after_return=0"
        if driver in ("f", "fc"):
            return [os.path.join(self.dir, "drv_f"), opsfile], env
        if driver in ("c", "cc"):
            return [os.path.join(self.dir, "drv_c"), opsfile], env
        env["LD_PRELOAD"] = libasan()
        env["PYTHONMALLOC"] = "malloc"
        env["PYTHONPATH"] = self.dir
        env["PYTHONHASHSEED"] = "0"
        env["PYTHONDONTWRITEBYTECODE"] = "1"
        return [PY, os.path.join(self.dir, "drv_py.py"), opsfile], env


def op_line(op):
    name = op[0]
    a = op[1] if len(op) > 1 else 0
    b = op[2] if len(op) > 2 else 0
    text = op[3] if len(op) > 3 else None
    s = "%s %d %d" % (name, a, b)
    if text is not None:
        s += " |" + text
    return s


# ------------------------------------------------------------------ run + judge
FORBIDDEN = ("BADMAGIC", "KEPT-FREED", "DOUBLE-DTOR", "DTOR-UNKNOWN", "HANDOUT-UNTRACKED")


def parse_output(text):
    per = {}
    for line in text.split("\n"):
        f = line.split(" ", 2)
        if len(f) < 2 or f[0] not in ("RES", "LIVE", "HAND", "MEM", "EV"):
            continue
        try:
            k = int(f[1])
        except ValueError:
            continue
        per.setdefault(k, {})[f[0]] = f[2] if len(f) > 2 else ""
    return per


def res_matches(expected, got, driver):
    """expected: tuple from the model; got: text after 'RES k'."""
    if expected is None:
        return True
    got = got.rstrip("\n")
    if len(expected) == 0:
        return got.strip() == ""
    if len(expected) == 2 and isinstance(expected[1], str):
        return got == "%d [%s]" % (expected[0], expected[1])
    return got.split() == [str(x) for x in expected]


def asan_kind(stderr):
    m = re.search(r"ERROR: AddressSanitizer: ([a-zA-Z-]+)( double-free| free on address which was not malloc)?", stderr)
    if m:
        kind = m.group(1)
        if kind == "attempting":
            kind = "double-free" if "double-free" in (m.group(2) or "") else "bad-free"
        m = re.match("(.*)", kind)
        # the innermost frame inside generated code names the call site (part of the signature)
        for line in stderr.split("\n"):
            f = re.match(r"\s+#\d+ 0x[0-9a-f]+ in (\S+) .*/(wrap|util|py)[A-Za-z0-9_]*\.(c|cpp|f)\b", line)
            if f:
                return m.group(1) + "@" + f.group(1).split("(")[0]
        return m.group(1)
    if "LeakSanitizer" in stderr:
        return "leak"
    return None


def judge(driver, ops, exps, out, err, returncode, known=None, label=None):
    """Compare one run with the model.  Returns (violations, inconclusive reason or None, stats).

    A mismatch whose signature matches a *recorded* finding (known_findings.txt) does not stop the
    judging: the leaked objects / handouts become "zombies" that are expected to stay alive from
    then on, the occurrence is counted, and the remaining ops are judged as usual.
    """
    per = parse_output(out)
    vs = []
    stats = {"ops_checked": 0, "known": {}}
    zombie_live = []
    zombie_hand = []

    def is_known(v):
        v["drv"] = label or driver  # e.g. "f-cfi": the Fortran driver of an F_CFI variant
        sig = "%s:%s:%s:%s" % (v["inv"], v["kind"], v["drv"], v.get("op"))
        hit = report.match_known(known or [], sig)
        if hit:
            stats["known"][sig] = stats["known"].get(sig, 0) + 1
        return bool(hit)

    for k, (op, e) in enumerate(zip(ops, exps)):
        got = per.get(k)
        if got is None or "EV" not in got:
            # the process died inside op k
            kind = asan_kind(err)
            if kind:
                vs.append({"inv": "I6.5-asan", "kind": kind, "op_index": k, "op": op[0],
                           "detail": first_asan_lines(err)})
            elif returncode < 0 or returncode in (134, 139, 66):
                vs.append({"inv": "I6.5-crash", "kind": "signal%d" % returncode, "op_index": k, "op": op[0],
                           "detail": err[-400:]})
            else:
                return vs, "driver stopped at op %d (%s) rc=%s: %s" % (k, op[0], returncode, err[-300:]), stats
            return vs, None, stats
        stats["ops_checked"] += 1
        ev = got.get("EV", "")
        for bad in FORBIDDEN:
            if bad in ev:
                inv = "I6.3-library-memory-freed" if bad == "KEPT-FREED" else "I6.1-object-lifetime"
                vs.append({"inv": inv, "kind": bad, "op_index": k, "op": op[0], "detail": ev[:300]})
        res = got.get("RES", "")
        if "UNKNOWN-OP" in res:
            return vs, "driver does not know op %s" % op[0], stats
        if e.get("grow_check") and "GROW" in res:
            toks = res.split()
            def six_after(mark):
                # the driver prints strings as "<len> [text]": the numbers follow the marker
                if mark not in toks:
                    return []
                at = toks.index(mark)
                return [int(x) for x in toks[at + 1:at + 7] if x.lstrip("-").isdigit()]
            nums = six_after("[GROW]")
            refs = six_after("[REFS]")
            if len(nums) != 6 or len(refs) != 6:
                return vs, "repeated-call measurement of %s is unreadable: %s" % (op[0], res[:120]), stats
            if len(refs) == 6 and refs[1] != refs[5] and (refs[5] - refs[1]) == 4 * (refs[2] - refs[1]):
                v = {"inv": "I6.4-python-refcount-drift", "kind": "leaked" if refs[5] > refs[1] else "over-released",
                     "op_index": k, "op": op[0], "detail": {"argument_refcount_sum_after_each_of_6_calls": refs}}
                if not is_known(v):
                    vs.append(v)
            if len(nums) == 6 and nums[3] < nums[4] < nums[5] and nums[2] < nums[3]:
                # the amount per call is part of the identity: a recorded leak of one block per call
                # does not cover a call that suddenly leaves three
                v = {"inv": "I6.4-python-heap-grows", "kind": "repeated-call+%d" % (nums[5] - nums[4]),
                     "op_index": k, "op": op[0],
                     "detail": {"wrapper_phase_blocks_after_each_of_6_calls": nums}}
                if not is_known(v):
                    vs.append(v)
        if "UNEXPECTED" in res and e["res"] is None:
            return vs, None if vs else "fault op ended in an unexpected driver exception: " + res[:120], stats
        live = sorted(int(x) for x in got.get("LIVE", "").split())
        hand = sorted(x.split(":")[1] for x in got.get("HAND", "").split())
        want_live = sorted(e["live"] + zombie_live)
        want_hand = sorted([x.split(":")[1] for x in e["hand"]] + zombie_hand)
        if live != want_live:
            gone = multiset_minus(want_live, live)
            extra = multiset_minus(live, want_live)
            kind = "destroyed-early-or-wrongly" if gone else "not-released"
            v = {"inv": "I6.1-object-lifetime", "kind": kind, "op_index": k, "op": op[0],
                 "detail": {"expected_live": want_live, "live": live, "gone": gone, "extra": extra}}
            if not gone and is_known(v):
                zombie_live += extra
            else:
                vs.append(v)
        if hand != want_hand:
            gone = multiset_minus(want_hand, hand)
            extra = multiset_minus(hand, want_hand)
            kind = "released-early" if gone else "caller-owned-not-released"
            v = {"inv": "I6.2-handout", "kind": kind + ":" + ",".join(sorted(set(gone or extra))),
                 "op_index": k, "op": op[0], "detail": {"expected": want_hand, "outstanding": hand}}
            if not gone and is_known(v):
                zombie_hand += extra
            else:
                vs.append(v)
        if driver != "py":
            m = re.search(r"live=(\d+) bytes=(\d+)", got.get("MEM", ""))
            if m and int(m.group(1)) != e["mem_live"]:
                vs.append({"inv": "I6.4-temporary-not-freed", "kind": "wrapper-phase-blocks", "op_index": k,
                           "op": op[0], "detail": {"live_blocks": int(m.group(1)), "bytes": int(m.group(2))}})
        if vs:
            return vs, None, stats
        if not res_matches(e["res"], res, driver):
            # a wrong *value* is C01-C03/C10 territory: the sequence is abandoned, not reported
            return vs, "value mismatch at op %d %s: expected %r got %r" % (k, op, e["res"], res[:120]), stats
    kind = asan_kind(err)
    if kind:
        vs.append({"inv": "I6.5-asan", "kind": kind, "op_index": len(ops), "op": "exit", "detail": first_asan_lines(err)})
    elif returncode != 0:
        return vs, "driver exit status %s: %s" % (returncode, err[-300:]), stats
    return vs, None, stats


def multiset_minus(a, b):
    b = list(b)
    out = []
    for x in a:
        if x in b:
            b.remove(x)
        else:
            out.append(x)
    return out


def first_asan_lines(err):
    lines = err.split("\n")
    for i, l in enumerate(lines):
        if "ERROR: AddressSanitizer" in l:
            # pid and addresses differ from process to process: not part of the (replayable) record
            keep = [re.sub(r"0x[0-9a-f]+", "0x..", re.sub(r"==\d+==", "====", l))[:200]]
            for x in lines[i + 1:i + 40]:
                if re.match(r"\s+#\d+ ", x) and ("simlib" in x or "wrap" in x or "util" in x or "py" in x or "drv" in x):
                    keep.append(re.sub(r"0x[0-9a-f]+", "0x..", x.strip())[:160])
                if len(keep) >= 6:
                    break
            return keep
    return []


def run_sequence(build, driver, ops, tag, timeout=120, known=None):
    exps = M.expectations(driver, ops)
    if exps is None:
        return {"invalid": True}
    opsfile = os.path.join(build.dir, "ops-%s.txt" % tag)
    with open(opsfile, "w") as fp:
        fp.write("\n".join(op_line(o) for o in ops) + "\n")
    argv, env = build.command(driver, opsfile)
    try:
        p = subprocess.run(argv, cwd=build.dir, env=env, capture_output=True, timeout=timeout)
        out, err, rc = p.stdout.decode("latin-1"), p.stderr.decode("latin-1"), p.returncode
    except subprocess.TimeoutExpired:
        return {"violations": [], "inconclusive": "timeout", "stats": {"ops_checked": 0}, "digest": "timeout"}
    finally:
        try:
            os.unlink(opsfile)
        except OSError:
            pass
    label = driver + "-cfi" if (getattr(build, "meta", None) or {}).get("F_CFI") else driver
    vs, inc, stats = judge(driver, ops, exps, out, err, rc, known, label)
    for v in vs:
        v.setdefault("drv", label)
    # absolute heap block counts of the repeated-call measurement are not part of the execution's identity
    dig = digest_obj([(l.split("[GROW]")[0] if "[GROW]" in l else l)
                      for l in out.split("\n") if l.split(" ", 1)[0] in ("RES", "LIVE", "EV")])
    return {"violations": vs, "inconclusive": inc, "stats": stats, "digest": dig}


# ------------------------------------------------------------------ engine
class C06Engine(object):
    prop = "C06"
    TIERS = {"quick": dict(variants=5, seqs=4000, maxlen=24, selftest=24, min_budget=150, min_classes=10),
             "thorough": dict(variants=40, seqs=120000, maxlen=24, selftest=120, min_budget=300, min_classes=20)}

    def __init__(self, args):
        self.args = args
        self.tier = args.tier
        self.cfg = dict(self.TIERS[self.tier])
        if args.rounds is not None:
            self.cfg["variants"] = args.rounds
        if args.per_round is not None:
            self.cfg["seqs"] = args.per_round
        self.seeds = Seeds(args.seed)
        self.t0 = time.time()
        self.known = report.load_known("C06")
        self.builds = {}
        self._have = {}
        self.stats = {"sequences": 0, "ops": 0, "inconclusive": 0, "violating": 0, "harness_errors": 0,
                      "per_driver": {}, "op_kinds": {}, "faults": {}, "reach": {}, "inconclusive_samples": [],
                      "build_errors": {}}
        self.states = set()
        self.samples = []
        self.failures = []
        self.run_log = []
        self.known_seen = {}
        self.selftest = {}
        with open(os.path.join(SUBJECT, "simlib.yaml")) as fp:
            self.base_yaml = fp.read()
        with open(os.path.join(SUBJECT_C, "simc.yaml")) as fp:
            self.base_yaml_c = fp.read()

    def build_variant(self, index):
        rng = self.seeds.rng("c06variant", index)
        # every fourth variant wraps the C subject (language: c code paths)
        if index % 4 == 2:
            text, meta = make_variant_c(rng, self.base_yaml_c, index)
            d = os.path.join(campaign.scratch_dir(), "c06-v%d" % index)
            b = Build(d, text, C_DRIVERS, "v%d" % index, lib="simc")
        elif index % 8 == 4:
            # Fortran 2018 C descriptors (option F_CFI) instead of the bufferify protocol; everything
            # except the std::vector results, which this shroud cannot generate with F_CFI
            text, meta = make_variant(rng, self.base_yaml, index)
            head, blocks, tail = split_decls(text)
            blocks = [b for b in blocks if decl_name(b) not in CFI_UNSUPPORTED]
            mixed = index % 16 == 4  # (the other F_CFI variants, index % 16 == 12, set it for the whole library)
            if mixed:
                # the option given declaration by declaration: both protocols in one library
                # Declarations of the same result shape meet both protocols: alternating within each
                # shape along the (shuffled) order; which protocol comes first depends on the variant.
                seen_shape = {}
                first_cfi = index % 32 == 4

                def with_cfi(b):
                    if b.startswith(("- decl: class", "- decl: template", "- decl: struct", "- decl: namespace")):
                        return b
                    m = re.match(r"- decl: (.*?)(\w+)\s*\(", b.split("\n", 1)[0])
                    shape = m.group(1).strip() if m else "?"
                    k = seen_shape.get(shape, 0)
                    seen_shape[shape] = k + 1
                    if (k % 2 == 0) != first_cfi:
                        return b
                    if "\n  options:\n" in b:
                        return b.replace("\n  options:\n", "\n  options:\n    F_CFI: true\n", 1)
                    first, rest = b.split("\n", 1)
                    return first + "\n  options:\n    F_CFI: true\n" + rest
                blocks = [with_cfi(b) for b in blocks]
            else:
                head = head.replace("options:\n", "options:\n  F_CFI: true\n", 1)
            text = head + "".join(blocks) + tail
            d = os.path.join(campaign.scratch_dir(), "c06-v%d" % index)
            b = Build(d, text, ("f",), "v%d" % index)
            b.have = set(decl_name(x) for x in blocks)
            meta = dict(meta, variant="cfi%d" % index, F_CFI="per declaration" if mixed else "library",
                        subset=sorted(b.have))
        elif index % 4 == 3:
            # every fourth variant wraps only a subset of the declarations
            text, meta = make_variant_subset(rng, self.base_yaml, index)
            d = os.path.join(campaign.scratch_dir(), "c06-v%d" % index)
            b = Build(d, text, ("f", "py", "c"), "v%d" % index)
            b.have = set(meta["subset"])
        else:
            text, meta = make_variant(rng, self.base_yaml, index)
            d = os.path.join(campaign.scratch_dir(), "c06-v%d" % index)
            b = Build(d, text, CXX_DRIVERS, "v%d" % index)
            b.companion = True
            meta = dict(meta, companion="simtwo (SIB_) loaded first in the Fortran driver")
        b.meta = meta
        if b.generate():
            b.compile(self.args.workers)
        if b.have is not None:
            b.meta["destructor_table_entries"] = getattr(b, "meta_table", -1)
            t = "destructor_table_entries=%s" % b.meta["destructor_table_entries"]
            self.stats["reach"][t] = self.stats["reach"].get(t, 0) + 1
        self.builds[index] = b
        for k, v in b.errors.items():
            self.stats["build_errors"]["v%d:%s" % (index, k)] = v[-400:]
        return b

    def sequence_spec(self, vi, driver, i):
        rng = self.seeds.rng("c06seq", vi, driver, i)
        # swarm: each sequence enables a random subset of op kinds
        have = self.variant_have(vi)
        allops = M.ops_for(driver, have)
        if have is not None and not allops:
            return {"variant": vi, "driver": driver, "index": i, "ops": []}
        if rng.random() < 0.7 and len(allops) > 4:
            enabled = rng.sample(allops, rng.randint(4, len(allops)))
        else:
            enabled = allops
        length = rng.choice([1, 2, 3, 3, 5, 8, 12, 16, self.cfg["maxlen"]])
        ops, _ = M.gen_sequence(rng, driver, length, enabled, have)
        return {"variant": vi, "driver": driver, "index": i, "ops": ops}

    def variant_have(self, vi):
        """The wrapped declarations of variant vi (None = all): a function of the seed alone."""
        if vi % 8 == 4:
            if vi not in self._have:
                text, _ = make_variant(self.seeds.rng("c06variant", vi), self.base_yaml, vi)
                self._have[vi] = set(decl_name(b) for b in split_decls(text)[1]) - set(CFI_UNSUPPORTED)
            return self._have[vi]
        if vi % 4 != 3:
            return None
        if vi not in self._have:
            _, meta = make_variant_subset(self.seeds.rng("c06variant", vi), self.base_yaml, vi)
            self._have[vi] = set(meta["subset"])
        return self._have[vi]

    def execute(self, spec, tag):
        b = self.builds[spec["variant"]]
        return run_sequence(b, spec["driver"], spec["ops"], tag, known=self.known)

    def account(self, spec, res):
        st = self.stats
        st["sequences"] += 1
        self.run_log.append((spec["variant"], spec["driver"], spec["index"], res.get("digest"),
                             len(res.get("violations") or [])))
        d = st["per_driver"].setdefault(spec["driver"], {"sequences": 0, "ops": 0, "violating": 0, "inconclusive": 0})
        d["sequences"] += 1
        nchk = res.get("stats", {}).get("ops_checked", 0)
        st["ops"] += nchk
        d["ops"] += nchk
        prev = None
        exps = M.expectations(spec["driver"], spec["ops"]) or []
        for e in exps[:nchk]:
            for what in e.get("reach", []):
                st["reach"][what] = st["reach"].get(what, 0) + 1
        for op in spec["ops"][:max(nchk, 1)]:
            st["op_kinds"][op[0]] = st["op_kinds"].get(op[0], 0) + 1
            if op[0] in ("bad_vec_sum", "bad_arg", "bad_arr_sum", "nomem", "item_delete", "item_release",
                         "cap_delete", "cap_scope"):
                st["faults"][op[0]] = st["faults"].get(op[0], 0) + 1
            # distinct (abstract state, op kind): abstract state = previous op kind + #live handles bucket
            self.states.add((spec["driver"], prev, op[0]))
            prev = op[0]
        for sig, n in res.get("stats", {}).get("known", {}).items():
            self.known_seen[sig] = self.known_seen.get(sig, 0) + n
        if res.get("inconclusive") and "does not know op" in res["inconclusive"]:
            st["harness_errors"] += 1  # a wiring slip of the harness itself, never to be counted as "held"
        if res.get("inconclusive"):
            st["inconclusive"] += 1
            d["inconclusive"] += 1
            if len(st["inconclusive_samples"]) < 6:
                st["inconclusive_samples"].append("%s v%d #%d: %s" % (spec["driver"], spec["variant"], spec["index"],
                                                                     res["inconclusive"][:200]))
        if res.get("violations"):
            st["violating"] += 1
            d["violating"] += 1
            res["violations"].sort(key=lambda v: 0 if not report.match_known(self.known, self.signature(spec, v)) else 1)
            self.failures.append((spec, res))
        if len(self.samples) < 3 and len(spec["ops"]) >= 5:
            self.samples.append({"driver": spec["driver"], "variant": spec["variant"], "ops": spec["ops"][:10]})

    def signature(self, spec, v):
        return "%s:%s:%s:%s" % (v["inv"], v["kind"], v.get("drv", spec["driver"]), v.get("op"))

    def run_all(self):
        nv = self.cfg["variants"]
        per = max(1, self.cfg["seqs"] // nv)
        for vi in range(nv):
            b = self.build_variant(vi)
            specs = []
            for driver in b.drivers:
                if not b.ok.get(driver):
                    continue
                share = per // len(b.drivers)
                for i in range(share):
                    specs.append(self.sequence_spec(vi, driver, i))
            with cf.ThreadPoolExecutor(max_workers=self.args.workers) as ex:
                results = list(ex.map(lambda si: self.execute(si[1], "s%d" % si[0]), enumerate(specs)))
            for spec, res in zip(specs, results):
                self.account(spec, res)
            if vi >= 2 and self.tier == "thorough":
                # keep at most 3 build trees on disk
                old = self.builds.get(vi - 2)
                if old and not any(s["variant"] == vi - 2 for s, _ in self.failures):
                    shutil.rmtree(old.dir, ignore_errors=True)

    def self_tests(self):
        """Same sequence twice (and under another worker count): identical RES/LIVE/EV digests."""
        b = self.builds.get(0)
        specs = []
        for driver in (b.drivers if b else []):
            if b.ok.get(driver):
                specs += [self.sequence_spec(0, driver, 10_000 + i) for i in range(self.cfg["selftest"] // len(b.drivers))]
        with cf.ThreadPoolExecutor(max_workers=self.args.workers) as ex:
            r1 = list(ex.map(lambda si: self.execute(si[1], "t%d" % si[0]), enumerate(specs)))
        with cf.ThreadPoolExecutor(max_workers=3) as ex:
            r2 = list(ex.map(lambda si: self.execute(si[1], "u%d" % si[0]), enumerate(specs)))
        mism = 0
        for spec, a, c in zip(specs, r1, r2):
            if a.get("digest") != c.get("digest") or json.dumps(a.get("violations"), sort_keys=True) != json.dumps(
                    c.get("violations"), sort_keys=True):
                mism += 1
                self.selftest.setdefault("mismatch_samples", []).append(
                    {"driver": spec["driver"], "ops": spec["ops"][:30], "violations": [a.get("violations"), c.get("violations")]})
        # the oracle itself: synthetic driver output with a growing heap / drifting reference counts
        # must be flagged, a flat one must not (a parsing slip once silenced the check)
        def synth(grow, refs):
            ops = [["leak_str_ref"]]
            out = "RES 0 4 [GROW] %s 4 [REFS] %s\nLIVE 0\nHAND 0\nMEM 0 live=0 bytes=0 allocs=0 frees=0\nEV 0 \n" % (
                " ".join(map(str, grow)), " ".join(map(str, refs)))
            return [v["inv"] for v in judge("py", ops, M.expectations("py", ops), out, "", 0, [])[0]]
        oracle_ok = (synth([5, 6, 7, 8, 9, 10], [3] * 6) == ["I6.4-python-heap-grows"]
                     and synth([5, 5, 5, 5, 5, 5], [3, 4, 5, 6, 7, 8]) == ["I6.4-python-refcount-drift"]
                     and synth([5, 6, 6, 6, 6, 6], [3] * 6) == [])
        self.selftest["oracle_sensitivity"] = oracle_ok
        if not oracle_ok:
            mism += 1
        self.selftest["determinism_sequences"] = len(specs)
        self.selftest["determinism_mismatches"] = mism
        # the generator does not depend on the driver's own hash order
        outs = []
        for hs in ("0", "4242"):
            p = subprocess.run([PY, os.path.join(report.VERIF, "sim", "cli.py"), "C06", "--tier", self.tier, "--seed",
                                str(self.args.seed), "--dump-specs", "--no-evidence"], capture_output=True, text=True,
                               env=dict(os.environ, PYTHONHASHSEED=hs), timeout=600)
            outs.append(p.stdout.strip().splitlines()[-1] if p.stdout.strip() else "ERR" + p.stderr[-200:])
        self.selftest["generator_hashseed_independent"] = outs[0] == outs[1] and not outs[0].startswith("ERR")
        return mism == 0 and self.selftest["generator_hashseed_independent"]

    def minimise_failure(self, spec, res, cls):
        def evaluate(cands):
            with cf.ThreadPoolExecutor(max_workers=self.args.workers) as ex:
                rs = list(ex.map(lambda ci: self.execute(ci[1], "m%d" % ci[0]), enumerate(cands)))
            return [r if not r.get("invalid") else {"violations": []} for r in rs]

        m = minimise.Minimiser(evaluate, cls, budget=self.cfg["min_budget"], simplifiers=[simp_arg],
                               valid=lambda ops: M.expectations(spec["driver"], ops) is not None)
        small = m.run(spec)
        conf = evaluate([copy.deepcopy(small)])[0]
        return small, conf, m.used

    def process_failures(self, reporter):
        classes = {}
        for spec, res in self.failures:
            v = res["violations"][0]
            classes.setdefault((v["inv"], v["kind"], v.get("drv", spec["driver"]), v.get("op")), []).append((spec, res))
        self.stats["violation_classes"] = len(classes)
        for sig, n in sorted(self.known_seen.items()):
            for _ in range(n):
                reporter.add(sig, None, "")
        done = 0
        seen = set()
        for key in sorted(classes, key=lambda k: (sum(1 for o in classes if o[:2] == k[:2] and o < k), str(k))):
            spec, res = min(classes[key], key=lambda sr: (len(sr[0]["ops"]), sr[0]["variant"], sr[0]["index"]))
            v = res["violations"][0]
            sig = self.signature(spec, v)
            if report.match_known(self.known, sig):
                for _ in classes[key]:
                    reporter.add(sig, None, "")
                continue
            if done >= self.cfg["min_classes"]:
                continue
            cls = (v["inv"], v["kind"])
            small, conf, used = self.minimise_failure(spec, res, cls)
            if not minimise.has_class(conf, cls):
                self.stats["harness_errors"] += 1
                continue
            v2 = [x for x in conf["violations"] if (x["inv"], x["kind"]) == cls][0]
            sig = self.signature(small, v2)
            if sig in seen:
                continue
            seen.add(sig)
            b = self.builds[small["variant"]]
            name = "%s-%s" % (self.tier, digest_obj([sig, small["ops"]])[:12])
            rp = report.write_replay("C06", name, {
                "property": "C06", "seed": self.args.seed, "class": list(cls), "signature": sig,
                "driver": small["driver"], "variant": small["variant"], "variant_meta": b.meta,
                "yaml": b.yaml_text, "ops": small["ops"], "expected": conf["violations"][:3],
                "digest": conf.get("digest"), "minimiser_executions": used,
                "original_length": len(spec["ops"]), "minimised_length": len(small["ops"]),
                "occurrences_in_batch": len(classes[key])})
            reporter.add(sig, rp, "%s %s driver=%s op=%s detail=%s" % (
                v2["inv"], v2["kind"], small["driver"], v2.get("op"), json.dumps(v2.get("detail"))[:300]))
            done += 1

    def coverage(self):
        st = self.stats
        wall = time.time() - self.t0
        return {
            "evaluations": st["sequences"],
            "distinct_nontrivial": len(self.states),
            "rule": ("seeded op sequences of 1-24 wrapper calls over <= 8 handle slots, swarm-selected op kinds, "
                     "string/array lengths incl. 0 and exact fit; one process per sequence; non-trivial/distinct = "
                     "distinct (driver, previous op kind, op kind) transitions actually executed and judged"),
            "samples": self.samples,
            "ops_judged": st["ops"],
            "run_digest": digest_obj(sorted(self.run_log)),
            "sequences_per_hour": int(st["sequences"] / max(wall, 1e-6) * 3600),
            "simulated_time": "no simulated clock; logical steps = %d judged wrapper calls" % st["ops"],
            "per_driver": st["per_driver"],
            "op_kinds_executed": st["op_kinds"],
            "fault_kinds_fired": st["faults"],
            "reach_probes": st["reach"],
            "probes_stuck_at_zero": [p for p in ("delete_again", "release_again", "release_library_owned",
                                                 "capsule_reused_while_owning", "capsule_delete_again",
                                                 "capsule_delete_empty", "python_last_reference_dropped",
                                                 "python_borrowed_wrapper_dropped", "string_exact_fit",
                                                 "string_zero_length", "string_truncated") if not st["reach"].get(p)],
            "variants_built": {("v%d" % k): {"ok": b.ok, "meta": b.meta} for k, b in self.builds.items()},
            "build_errors": st["build_errors"],
            "inconclusive_sequences": st["inconclusive"],
            "inconclusive_samples": st["inconclusive_samples"],
            "violating_sequences": st["violating"],
            "violation_classes": st.get("violation_classes", 0),
            "harness_errors": st["harness_errors"],
            "self_tests": self.selftest,
            "real_code": ["shroud generator from /repo working tree", "all generated C/C++/Fortran/Python-extension "
                          "sources and embedded helpers", "gcc/g++/gfortran run-times with AddressSanitizer", "CPython 3.12"],
            "stubbed": ["subject library (c06/subject/simlib.*)", "drivers (drv_f.f90, drv_c.c, drv_py.py)",
                        "allocator seam and trace (simhook.cpp)", "reference model (sim/c06model.py)"],
            "not_covered": ["Lua binding (no Lua in the sandbox)", "NumPy-mode Python arrays (no NumPy in /venv)"],
            "exhaustive": False,
        }

    assumptions = [
        "ops that are undefined for the *user* are never generated (method call through a released or dangling "
        "handle, explicit delete of a borrowed object, delete through a bit-copy after the original was deleted)",
        "a wrong returned *value* is not a C06 violation: the sequence is abandoned and counted as inconclusive",
        "wrapper-phase heap blocks are attributed by the driver bracketing each call with sim_phase(1)/sim_phase(0); "
        "results handed over by value (allocatable strings/arrays) are deallocated by the driver before the op ends",
        "Python: what a failed call returns (MemoryError vs SystemError) is not judged, only what it leaks or destroys",
    ]

    def main(self):
        if self.args.replay:
            return self.replay(self.args.replay)
        if self.args.dump_specs:
            specs = [self.sequence_spec(0, d, i) for d in DRIVERS for i in range(40)]
            print(digest_obj(specs))
            return 0
        try:
            self.run_all()
            ok = self.self_tests()
            rep = report.Reporter("C06")
            self.process_failures(rep)
            code = rep.finish()
        finally:
            pass
        nbuilt = sum(1 for b in self.builds.values() for d in b.drivers if b.ok.get(d))
        if not self.args.no_evidence:
            report.write_evidence("C06", self.tier, self.args.seed, "exploration", self.coverage(),
                                  time.time() - self.t0, len(rep.new), self.assumptions,
                                  extra={"known_findings_hit": sorted(rep.known_hits)})
        st = self.stats
        print("C06 %s: %d variants, %d sequences, %d ops judged, %d distinct transitions, %d violating, "
              "%d inconclusive, %.1fs" % (self.tier, len(self.builds), st["sequences"], st["ops"], len(self.states),
                                          st["violating"], st["inconclusive"], time.time() - self.t0))
        if code == 0:
            want = [d for d in DRIVERS if any(d in b.drivers for b in self.builds.values())]
            never = [d for d in want if not any(b.ok.get(d) for b in self.builds.values())]
            base_ok = self.builds.get(0) and "generate" not in self.builds[0].errors
            if base_ok and any("generate" in b.errors for b in self.builds.values()):
                never.append("variant generation")
            base = self.builds.get(0)
            if base is not None:
                # the unmodified subject must build for every driver: anything else would let the
                # run pass on a fraction of the workload
                never += ["%s of the base variant" % d for d in base.drivers if not base.ok.get(d) and d in ("f", "c", "py")]
            if nbuilt == 0 or st["sequences"] == 0 or never:
                print("HARNESS-ERROR: driver(s) %s could not be built for any variant (generated code does not "
                      "compile?): %s" % (never, json.dumps(st["build_errors"])[:1500]))
                return report.EXIT_HARNESS
            if not ok or st["harness_errors"]:
                print("HARNESS-ERROR: self-tests=%s" % self.selftest)
                return report.EXIT_HARNESS
        return code

    def replay(self, path):
        with open(path) as fp:
            rf = json.load(fp)
        d = os.path.join(campaign.scratch_dir(), "c06-replay")
        b = Build(d, rf["yaml"], [rf["driver"]], "replay", lib="simc" if rf["driver"] in C_DRIVERS else "simlib")
        b.meta = rf.get("variant_meta")
        if (b.meta or {}).get("subset") is not None:
            b.have = set(b.meta["subset"])
        b.companion = bool((b.meta or {}).get("companion"))
        if b.lib == "simlib" and b.have is None:
            # a replay file carries the subject description of the day it was recorded; the drivers are
            # today's: keep only the branches whose declarations that description has
            b.have = set(decl_name(x) for x in split_decls(rf["yaml"])[1])
        if not b.generate() or not b.compile(self.args.workers).get(rf["driver"]):
            print("HARNESS-ERROR: build failed: %s" % json.dumps(b.errors)[:1500])
            return report.EXIT_HARNESS
        res = run_sequence(b, rf["driver"], rf["ops"], "replay", known=self.known)
        print(json.dumps(res, indent=1)[:3000])
        if minimise.has_class(res, tuple(rf["class"])):
            print("VIOLATION property=C06 replay=%s" % path)
            print("  output digest %s recorded one" % ("matches" if res.get("digest") == rf.get("digest") else "differs from"))
            return 1
        print("not reproduced on this tree")
        return 0


def simp_arg(ops, k):
    """Shrink numeric arguments and texts towards small values."""
    o = ops[k]
    alts = []
    if len(o) > 1 and isinstance(o[1], int) and o[1] > 1 and o[0] not in ("item_val", "make_item", "copy_item"):
        for v in (0, 1, o[1] // 2):
            if v != o[1]:
                n = copy.deepcopy(ops)
                n[k][1] = v
                alts.append(n)
    if len(o) > 3 and o[3]:
        n = copy.deepcopy(ops)
        n[k][3] = o[3][: len(o[3]) // 2]
        alts.append(n)
    return alts


def main(argv):
    return C06Engine(gcheck.parse_args("C06", argv)).main()
