"""Process-wide seams, installed once *before* shroud is imported.

While a world is active (``WORLD.fs is not None``) the filesystem, cwd,
environment, clock, host, user and pid the system under test can observe are
the simulator's.  With no active world every seam falls through to the real
thing, so the harness itself is unaffected.
"""
import builtins
import datetime as _datetime
import io
import errno
import os
import sys
import time as _time

_real = {}


class World(object):
    fs = None  # SimFS or None
    env = None  # SimEnv or None


WORLD = World()


class SimEnv(object):
    """Per-run environment handed to the system under test."""

    def __init__(self, clock=1.6e9, host="simhost", user="simuser", pid=4242,
                 environ=None):
        self.clock = float(clock)
        self.host = host
        self.user = user
        self.pid = int(pid)
        self.environ = dict(environ or {})
        self.reads = {}  # which environment seams were consulted, how often

    def note(self, what):
        self.reads[what] = self.reads.get(what, 0) + 1

    def now(self):
        self.note("clock")
        self.clock += 0.001
        return self.clock

    def to_json(self):
        return {"clock": self.clock, "host": self.host, "user": self.user,
                "pid": self.pid, "environ": dict(self.environ)}

    @classmethod
    def from_json(cls, d):
        return cls(d["clock"], d["host"], d["user"], d["pid"], d["environ"])


def _emitter_tag():
    """Innermost shroud module (other than util) on the stack at open() time."""
    f = sys._getframe(2)
    chain = []
    tag = None
    while f is not None:
        mod = f.f_globals.get("__name__", "")
        if mod.startswith("shroud."):
            short = mod[len("shroud."):]
            chain.append("%s.%s" % (short, f.f_code.co_name))
            if tag is None and short not in ("util",):
                tag = short
        f = f.f_back
    return (tag or "unknown"), "<".join(chain[:4])


class LoggingEnviron(object):
    """Stands in for os.environ: every lookup made while a world is active is noted in the
    SimEnv ("environ:<NAME>"), including lookups of variables that are not set, so that the
    search can perturb exactly the variables the system under test looks at."""

    def __init__(self, data):
        self._data = data

    def _note(self, key):
        env = WORLD.env
        if env is not None and isinstance(key, str):
            env.note("environ:" + key)

    def __getitem__(self, key):
        self._note(key)
        return self._data[key]

    def get(self, key, default=None):
        self._note(key)
        return self._data.get(key, default)

    def __contains__(self, key):
        self._note(key)
        return key in self._data

    def __setitem__(self, key, value):
        self._data[key] = value

    def __delitem__(self, key):
        del self._data[key]

    def __iter__(self):
        env = WORLD.env
        if env is not None:
            env.note("environ:*")
        return iter(list(self._data))

    def __len__(self):
        return len(self._data)

    def keys(self):
        return list(iter(self))

    def items(self):
        return [(k, self._data[k]) for k in iter(self)]

    def values(self):
        return [self._data[k] for k in iter(self)]

    def copy(self):
        return dict(self.items())

    def setdefault(self, key, value):
        self._note(key)
        return self._data.setdefault(key, value)

    def pop(self, key, *a):
        return self._data.pop(key, *a)

    def update(self, *a, **kw):
        self._data.update(*a, **kw)

    def clear(self):
        self._data.clear()


def install():
    if _real:
        return
    _real["os.environ"] = os.environ
    os.environ = LoggingEnviron(dict(os.environ))
    _real["open"] = builtins.open
    _real["isdir"] = os.path.isdir
    _real["isfile"] = os.path.isfile
    _real["exists"] = os.path.exists
    _real["getcwd"] = os.getcwd
    _real["getpid"] = os.getpid

    def sim_open(file, *a, **kw):
        fs = WORLD.fs
        if fs is None:
            return _real["open"](file, *a, **kw)
        return fs.open(file, *a, **kw)

    def sim_isdir(p):
        fs = WORLD.fs
        return _real["isdir"](p) if fs is None else fs.isdir(p)

    def sim_isfile(p):
        fs = WORLD.fs
        return _real["isfile"](p) if fs is None else fs.isfile(p)

    def sim_exists(p):
        fs = WORLD.fs
        return _real["exists"](p) if fs is None else fs.exists(p)

    def sim_getcwd():
        fs = WORLD.fs
        if fs is None:
            return _real["getcwd"]()
        if WORLD.env is not None:
            WORLD.env.note("cwd")
        return fs.cwd

    def sim_getpid():
        env = WORLD.env
        if env is None:
            return _real["getpid"]()
        env.note("pid")
        return env.pid

    # ---- os-level file API on simulated paths
    for name in ("open", "fdopen", "write", "read", "close", "rename", "replace", "remove", "unlink",
                 "listdir", "makedirs", "mkdir", "stat", "lstat", "access"):
        _real["os." + name] = getattr(os, name)

    def _sim_path(p):
        fs = WORLD.fs
        if fs is None or isinstance(p, int):
            return None
        try:
            n = fs.norm(p)
        except TypeError:
            return None
        return fs if fs.is_sim(n) else None

    def sim_os_open(path, flags, mode=0o777, *a, **kw):
        fs = _sim_path(path)
        return _real["os.open"](path, flags, mode, *a, **kw) if fs is None else fs.os_open(path, flags, mode)

    def sim_os_fdopen(fd, *a, **kw):
        fs = WORLD.fs
        if fs is not None and fs.is_fake_fd(fd):
            return fs.os_fdopen(fd, *a, **kw)
        return _real["os.fdopen"](fd, *a, **kw)

    def sim_os_write(fd, data):
        fs = WORLD.fs
        return fs.os_write(fd, data) if fs is not None and fs.is_fake_fd(fd) else _real["os.write"](fd, data)

    def sim_os_read(fd, n):
        fs = WORLD.fs
        return fs.os_read(fd, n) if fs is not None and fs.is_fake_fd(fd) else _real["os.read"](fd, n)

    def sim_os_close(fd):
        fs = WORLD.fs
        return fs.os_close(fd) if fs is not None and fs.is_fake_fd(fd) else _real["os.close"](fd)

    def sim_os_rename(src, dst, *a, **kw):
        fs = _sim_path(src) or _sim_path(dst)
        return _real["os.rename"](src, dst, *a, **kw) if fs is None else fs.os_rename(src, dst)

    def sim_os_remove(path, *a, **kw):
        fs = _sim_path(path)
        return _real["os.remove"](path, *a, **kw) if fs is None else fs.os_remove(path)

    def sim_os_listdir(path="."):
        fs = _sim_path(path)
        return _real["os.listdir"](path) if fs is None else fs.os_listdir(path)

    def sim_os_makedirs(path, mode=0o777, exist_ok=False):
        fs = _sim_path(path)
        return _real["os.makedirs"](path, mode, exist_ok) if fs is None else fs.os_makedirs(path, mode, exist_ok)

    def sim_os_mkdir(path, mode=0o777, *a, **kw):
        fs = _sim_path(path)
        return _real["os.mkdir"](path, mode, *a, **kw) if fs is None else fs.os_makedirs(path, mode, False)

    def sim_os_stat(path, *a, **kw):
        fs = _sim_path(path)
        if fs is None:
            return _real["os.stat"](path, *a, **kw)
        if WORLD.env is not None:
            fs.stat_time = WORLD.env.clock
        return fs.os_stat(path)

    def sim_os_access(path, mode, *a, **kw):
        fs = _sim_path(path)
        return _real["os.access"](path, mode, *a, **kw) if fs is None else fs.exists(path)

    def sim_meta(name):
        """chmod / utime / chown on a simulated path: the path must exist, nothing else happens
        (modes and times are not part of what is judged)."""
        real = _real["os." + name] = getattr(os, name)

        def f(path, *a, **kw):
            fs = _sim_path(path) if isinstance(path, (str, bytes, os.PathLike)) else None
            if fs is None:
                if isinstance(path, int) and WORLD.fs is not None and WORLD.fs.is_fake_fd(path):
                    return None
                return real(path, *a, **kw)
            if not fs.exists(path):
                raise FileNotFoundError(errno.ENOENT, "No such file or directory", str(path))
            fs.trace.ev(name, fs.norm(path), "")
            return None
        return f

    for _n in ("chmod", "utime", "chown"):
        if hasattr(os, _n):
            setattr(os, _n, sim_meta(_n))

    _real["os.fsync"] = os.fsync

    def sim_os_fsync(fd):
        fs = WORLD.fs
        return None if fs is not None and fs.is_fake_fd(fd) else _real["os.fsync"](fd)

    os.fsync = sim_os_fsync
    _real["os.fstat"] = os.fstat

    def sim_os_fstat(fd):
        fs = WORLD.fs
        if fs is not None and fs.is_fake_fd(fd):
            return fs.os_stat(fs._fds[fd].path)
        return _real["os.fstat"](fd)

    os.fstat = sim_os_fstat

    _real["os.scandir"] = os.scandir

    class _SimDirEntry(object):
        def __init__(self, fs, d, name):
            self._fs, self.name, self.path = fs, name, (d.rstrip("/") + "/" + name)

        def is_dir(self, follow_symlinks=True):
            return self._fs.isdir(self.path)

        def is_file(self, follow_symlinks=True):
            return self._fs.isfile(self.path)

        def is_symlink(self):
            return False

        def stat(self, follow_symlinks=True):
            return self._fs.os_stat(self.path)

        def inode(self):
            return 1

        def __fspath__(self):
            return self.path

    class _SimScan(object):
        def __init__(self, entries):
            self._it = iter(entries)

        def __iter__(self):
            return self

        def __next__(self):
            return next(self._it)

        def close(self):
            pass

        def __enter__(self):
            return self

        def __exit__(self, *a):
            return False

    def sim_os_scandir(path="."):
        fs = _sim_path(path)
        if fs is None:
            return _real["os.scandir"](path)
        p = os.fspath(path)
        return _SimScan([_SimDirEntry(fs, p, n) for n in fs.os_listdir(p)])

    os.scandir = sim_os_scandir

    os.open = sim_os_open
    os.fdopen = sim_os_fdopen
    os.write = sim_os_write
    os.read = sim_os_read
    os.close = sim_os_close
    os.rename = sim_os_rename
    os.replace = sim_os_rename
    os.remove = sim_os_remove
    os.unlink = sim_os_remove
    os.listdir = sim_os_listdir
    os.makedirs = sim_os_makedirs
    os.mkdir = sim_os_mkdir
    os.stat = sim_os_stat
    os.lstat = sim_os_stat
    os.access = sim_os_access

    builtins.open = sim_open
    io.open = sim_open
    os.path.isdir = sim_isdir
    os.path.isfile = sim_isfile
    os.path.exists = sim_exists
    os.getcwd = sim_getcwd
    os.getpid = sim_getpid

    # ---- clock
    for name in ("time", "time_ns", "monotonic", "perf_counter"):
        _real["time." + name] = getattr(_time, name)
    _real["localtime"] = _time.localtime
    _real["gmtime"] = _time.gmtime
    _real["strftime"] = _time.strftime
    _real["ctime"] = _time.ctime
    _real["asctime"] = _time.asctime

    def sim_time():
        env = WORLD.env
        return _real["time.time"]() if env is None else env.now()

    def sim_time_ns():
        env = WORLD.env
        return _real["time.time_ns"]() if env is None else int(env.now() * 1e9)

    def sim_gmtime(secs=None):
        env = WORLD.env
        if env is not None and secs is None:
            secs = env.now()
        return _real["gmtime"](secs) if secs is not None else _real["gmtime"]()

    def sim_localtime(secs=None):
        env = WORLD.env
        if env is not None and secs is None:
            return _real["gmtime"](env.now())
        return _real["localtime"](secs) if secs is not None else _real["localtime"]()

    def sim_strftime(fmt, t=None):
        env = WORLD.env
        if env is not None and t is None:
            t = _real["gmtime"](env.now())
        return _real["strftime"](fmt, t) if t is not None else _real["strftime"](fmt)

    def sim_ctime(secs=None):
        env = WORLD.env
        if env is not None and secs is None:
            return _real["asctime"](_real["gmtime"](env.now()))
        return _real["ctime"](secs) if secs is not None else _real["ctime"]()

    def sim_asctime(t=None):
        env = WORLD.env
        if env is not None and t is None:
            t = _real["gmtime"](env.now())
        return _real["asctime"](t) if t is not None else _real["asctime"]()

    _time.time = sim_time
    _time.time_ns = sim_time_ns
    _time.gmtime = sim_gmtime
    _time.localtime = sim_localtime
    _time.strftime = sim_strftime
    _time.ctime = sim_ctime
    _time.asctime = sim_asctime

    _real["datetime"] = _datetime.datetime
    _real["date"] = _datetime.date

    class SimDateTime(_datetime.datetime):
        @classmethod
        def now(cls, tz=None):
            env = WORLD.env
            if env is None:
                return _real["datetime"].now(tz)
            return _real["datetime"].fromtimestamp(env.now(), tz or _datetime.timezone.utc).replace(
                tzinfo=tz)

        @classmethod
        def utcnow(cls):
            env = WORLD.env
            if env is None:
                return _real["datetime"].utcnow()
            return _real["datetime"].fromtimestamp(env.now(), _datetime.timezone.utc).replace(
                tzinfo=None)

        @classmethod
        def today(cls):
            return cls.now()

    class SimDate(_datetime.date):
        @classmethod
        def today(cls):
            env = WORLD.env
            if env is None:
                return _real["date"].today()
            return _real["datetime"].fromtimestamp(env.now(), _datetime.timezone.utc).date()

    _datetime.datetime = SimDateTime
    _datetime.date = SimDate

    # ---- host / user
    import getpass
    import platform
    import socket

    _real["gethostname"] = socket.gethostname
    _real["node"] = platform.node
    _real["getuser"] = getpass.getuser
    _real["uname"] = os.uname

    def sim_gethostname():
        env = WORLD.env
        if env is None:
            return _real["gethostname"]()
        env.note("host")
        return env.host

    def sim_getuser():
        env = WORLD.env
        if env is None:
            return _real["getuser"]()
        env.note("user")
        return env.user

    def sim_uname():
        env = WORLD.env
        u = _real["uname"]()
        if env is None:
            return u
        env.note("host")
        return os.uname_result((u.sysname, env.host, u.release, u.version, u.machine))

    socket.gethostname = sim_gethostname
    platform.node = sim_gethostname
    getpass.getuser = sim_getuser
    os.uname = sim_uname
    try:
        os.getlogin = sim_getuser
    except Exception:
        pass


def _reset_random_names():
    """tempfile draws its names from an os.urandom-seeded generator: a source of nondeterminism
    like any other.  Every run starts the same seeded name sequence."""
    import random
    import tempfile

    class _SeededNames(tempfile._RandomNameSequence):
        @property
        def rng(self):
            if getattr(self, "_sim_rng", None) is None:
                self._sim_rng = random.Random(0x51D5EED)
            return self._sim_rng

    tempfile._name_sequence = _SeededNames()


def activate(fs, env):
    """Make (fs, env) the world seen by the system under test."""
    from . import simfs as _simfs  # noqa

    WORLD.fs = fs
    WORLD.env = env
    _reset_random_names()
    if fs is not None:
        fs.tagger = _emitter_tag
    if env is not None:
        # os.environ is mutated in place so that ``from os import environ`` sees it too
        _real.setdefault("environ", dict(os.environ))
        os.environ.clear()
        os.environ.update(env.environ)


def deactivate():
    WORLD.fs = None
    WORLD.env = None
    if "environ" in _real:
        os.environ.clear()
        os.environ.update(_real["environ"])
