"""Delta-debugging of a failing history.

``evaluate(list of specs) -> list of results`` runs candidates (in parallel, in
pristine host processes with the original hash seed).  A candidate is kept
only if a violation of the *same class* persists.
"""
import copy


def vclass(v):
    return (v.get("inv"), v.get("kind"))


def has_class(result, cls):
    if result.get("error"):
        return False
    return any(vclass(v) == cls for v in result.get("violations", []))


def _valid(ops):
    return any(o["op"] in ("RUN", "FRESH") and o.get("judge", True) and not o.get("fault")
               for o in ops)


class Minimiser(object):
    def __init__(self, evaluate, cls, budget=200, simplifiers=None, valid=None):
        self.valid = valid or _valid
        self.evaluate = evaluate
        self.cls = cls
        self.budget = budget
        self.used = 0
        self.simplifiers = simplifiers or []

    def _try(self, base, cand_ops_list):
        """Evaluate candidates; return index of the first that still fails, or None."""
        cands = []
        idx = []
        for i, ops in enumerate(cand_ops_list):
            if not ops or not self.valid(ops):
                continue
            s = copy.deepcopy(base)
            s["ops"] = ops
            s.pop("hid", None)
            cands.append(s)
            idx.append(i)
        if not cands or self.used >= self.budget:
            return None
        cands = cands[: max(0, self.budget - self.used)]
        self.used += len(cands)
        results = self.evaluate(cands)
        for i, r in zip(idx, results):
            if has_class(r, self.cls):
                return i
        return None

    def ddmin(self, spec):
        ops = list(spec["ops"])
        n = 2
        while len(ops) >= 2 and self.used < self.budget:
            size = max(1, len(ops) // n)
            chunks = [ops[i:i + size] for i in range(0, len(ops), size)]
            comps = []
            for ci in range(len(chunks)):
                comps.append([o for cj, c in enumerate(chunks) if cj != ci for o in c])
            hit = self._try(spec, comps)
            if hit is not None:
                ops = comps[hit]
                n = max(n - 1, 2)
            else:
                if size == 1:
                    break
                n = min(len(ops), n * 2)
        spec = copy.deepcopy(spec)
        spec["ops"] = ops
        return spec

    def simplify(self, spec):
        """Per-op simplifications: each simplifier yields alternative op lists."""
        changed = True
        while changed and self.used < self.budget:
            changed = False
            for simp in self.simplifiers:
                for k in range(len(spec["ops"])):
                    alts = simp(spec["ops"], k)
                    if not alts:
                        continue
                    hit = self._try(spec, alts)
                    if hit is not None:
                        spec = copy.deepcopy(spec)
                        spec["ops"] = alts[hit]
                        changed = True
                    if self.used >= self.budget:
                        break
        return spec

    def run(self, spec):
        spec = self.ddmin(spec)
        spec = self.simplify(spec)
        spec = self.ddmin(spec)
        return spec


# ---------------------------------------------------------------- simplifiers
def simp_entry(ops, k):
    o = ops[k]
    if o["op"] in ("RUN", "POISON") and o.get("entry", "cli") != "cli":
        n = copy.deepcopy(ops)
        n[k]["entry"] = "cli"
        return [n]
    return []


def simp_fault(ops, k):
    o = ops[k]
    if o["op"] == "RUN" and o.get("fault"):
        n = copy.deepcopy(ops)
        n[k]["fault"] = None
        n[k]["judge"] = False
        return [n]
    return []


def simp_fresh(ops, k):
    o = ops[k]
    if o["op"] == "FRESH":
        n = copy.deepcopy(ops)
        n[k] = {"op": "RUN", "job": o["job"], "entry": "cli", "judge": True}
        return [n]
    return []


def simp_dirty(ops, k):
    o = ops[k]
    if o["op"] == "DIRTY" and o.get("mutate") not in (None, "asis"):
        n = copy.deepcopy(ops)
        n[k]["mutate"] = "asis"
        return [n]
    return []


def simp_env(ops, k):
    o = ops[k]
    if o["op"] != "ENV":
        return []
    alts = []
    for key in ("clock", "host", "user", "pid", "cwd", "environ"):
        if key in o and len([x for x in o if x != "op"]) > 1:
            n = copy.deepcopy(ops)
            del n[k][key]
            alts.append(n)
    env = o.get("environ") or {}
    if len(env) > 1:
        for name in sorted(env):
            n = copy.deepcopy(ops)
            del n[k]["environ"][name]
            alts.append(n)
    return alts


def make_simp_job(size_order, max_alts=10):
    """Replace a job by a smaller admitted job (fewest input bytes first)."""
    rank = {jid: i for i, jid in enumerate(size_order)}

    def simp(ops, k):
        o = ops[k]
        if o["op"] not in ("RUN", "FRESH") or o["job"] not in rank:
            return []
        alts = []
        for jid in size_order[: rank[o["job"]]][:max_alts]:
            n = copy.deepcopy(ops)
            n[k]["job"] = jid
            if n[k].get("entry") == "api":
                n[k]["entry"] = "cli"
            if n[k].get("fault"):
                n[k]["fault"]["k"] = 0
            alts.append(n)
        return alts

    return simp
