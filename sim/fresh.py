"""Fresh-interpreter runner: golden runs and FRESH ops.

stdin : JSON {"job":…, "snapshot":…|null, "env":…, "entry":"cli", "fault":…|null}
stdout: JSON {"status", "message", "files": {path: latin-1}, "trace":…, "env_reads":…}

Started by exec with an explicit PYTHONHASHSEED chosen by the caller.
"""
import json
import os
import sys

sys.path.insert(0, os.path.dirname(os.path.dirname(os.path.abspath(__file__))))


def main():
    from sim import host
    from sim.simfs import SimFS, FaultPlan
    from sim.seam import SimEnv
    from sim.jobs import Job

    spec = json.load(sys.stdin)
    host.setup_process()
    job = Job.from_json(spec["job"])
    fs = SimFS()
    if spec.get("snapshot"):
        fs.restore(spec["snapshot"])
    env = SimEnv.from_json(spec["env"])
    fault = FaultPlan.from_json(spec.get("fault"))
    status, message, trace = host.run_job(fs, env, job, spec.get("entry", "cli"), fault)
    out = {
        "status": status,
        "message": message,
        "files": {p: b.decode("latin-1") for p, b in sorted(trace.written.items())},
        "trace": host.trace_summary(trace),
        "probed": sorted(set(e[1] for e in trace.events if e[0] in ("isfile", "isdir"))),
        "env_reads": env.reads,
        "stdout": trace.stdout,
        "hashseed": os.environ.get("PYTHONHASHSEED"),
        "after": {p: bytes(d).decode("latin-1") for p, d in sorted(fs.files.items())}
        if spec.get("want_after") else None,
    }
    sys.stdout.write(json.dumps(out))


if __name__ == "__main__":
    main()
