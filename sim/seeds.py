"""One integer decides everything.

Every random choice of the simulator is drawn from a stream derived from
(VERIF_SEED, label).  Separate labels give independent streams, so adding a
draw in one component never shifts the choices of another.  Nothing here reads
a clock, and logging code never draws.
"""
import hashlib
import random


def _h(*parts):
    m = hashlib.sha256()
    for p in parts:
        m.update(str(p).encode("utf-8"))
        m.update(b"\x00")
    return m.digest()


class Seeds(object):
    def __init__(self, seed):
        self.seed = int(seed)
        self.root = _h("shroud-sim", self.seed)

    def rng(self, *label):
        return random.Random(int.from_bytes(_h(self.root.hex(), *label)[:16], "big"))

    def integer(self, *label, **kw):
        mod = kw.get("mod", 2 ** 32)
        return int.from_bytes(_h(self.root.hex(), "int", *label)[:8], "big") % mod

    def hashseed(self, *label):
        # PYTHONHASHSEED accepts 0..4294967295; 0 disables randomisation, avoid it
        return 1 + self.integer("hashseed", *label, mod=4294967294)


def digest_obj(obj):
    """Stable digest of a JSON-able object."""
    import json

    return hashlib.sha256(
        json.dumps(obj, sort_keys=True, separators=(",", ":")).encode("utf-8")
    ).hexdigest()


def sha1(b):
    if isinstance(b, str):
        b = b.encode("utf-8")
    return hashlib.sha1(b).hexdigest()
