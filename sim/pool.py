"""Job pools: corpus + programmatic-entry jobs + configuration swarm + synthetic
libraries + poison (invalid) jobs.  Admission (golden must succeed) is done by
the check, not here."""
import re

from . import jobs as J
from .jobs import Job, IN_DIR, OUT, WORK

BOOL_OPTS = ["debug", "doxygen", "show_splicer_comments", "literalinclude2",
             "F_string_len_trim", "F_force_wrapper", "C_force_wrapper",
             "F_create_bufferify_function", "F_create_generic", "F_auto_reference_count",
             "F_flatten_namespace", "flatten_namespace", "PY_write_helper_in_util",
             "F_CFI", "literalinclude"]
# numeric options are spliced into the YAML text: "--option name=40" hands shroud a string
NUM_OPTS = {
    "C_line_length": ["40", "60", "100"],
    "F_line_length": ["50", "72", "120"],
}
VALUE_OPTS = {
    "PY_array_arg": ["list", "numpy"],
    "PY_struct_arg": ["class", "numpy", "list"],
    "return_scalar_pointer": ["pointer", "scalar"],
    "C_API_case": ["native", "lower", "upper"],
}
WRAPS = ["wrap_c", "wrap_fortran", "wrap_python", "wrap_lua"]

DIRS = {"c_fortran": "/sim/o_cf", "python": "/sim/o_py", "lua": "/sim/o_lua",
        "yaml": "/sim/o_yaml", "log": "/sim/o_log", "out": OUT}


def dir_pattern(rng, which=None):
    """An assignment of the five output-directory options + logdir.

    Returns (argv fragment, mkdirs, description).  Patterns: all in --outdir;
    every kind distinct; some equal; nested; --outdir absent with all specific
    ones given.
    """
    pats = ["single", "distinct", "py_lua_shared", "nested", "cf_only", "no_outdir", "log_apart", "relative",
            "trailing_slash", "cwd_only"]
    pat = which or rng.choice(pats)
    d = dict(DIRS)
    argv = []
    mk = [WORK]
    if pat == "single":
        argv = ["--outdir", OUT, "--logdir", OUT]
        mk += [OUT]
    elif pat == "distinct":
        argv = ["--outdir", OUT, "--outdir-c-fortran", d["c_fortran"], "--outdir-python", d["python"],
                "--outdir-lua", d["lua"], "--outdir-yaml", d["yaml"], "--logdir", d["log"]]
        mk += [OUT, d["c_fortran"], d["python"], d["lua"], d["yaml"], d["log"]]
    elif pat == "py_lua_shared":
        argv = ["--outdir", OUT, "--outdir-python", d["python"], "--outdir-lua", d["python"],
                "--logdir", d["log"]]
        mk += [OUT, d["python"], d["log"]]
    elif pat == "nested":
        argv = ["--outdir", OUT, "--outdir-c-fortran", OUT + "/cf", "--outdir-python", OUT + "/cf/py",
                "--outdir-lua", OUT + "/lua", "--outdir-yaml", OUT + "/cf", "--logdir", OUT + "/log"]
        mk += [OUT, OUT + "/cf", OUT + "/cf/py", OUT + "/lua", OUT + "/log"]
    elif pat == "cf_only":
        argv = ["--outdir", OUT, "--outdir-c-fortran", d["c_fortran"], "--logdir", OUT]
        mk += [OUT, d["c_fortran"]]
    elif pat == "no_outdir":
        # --outdir absent: unspecified kinds fall back to the cwd
        argv = ["--outdir-c-fortran", d["c_fortran"], "--outdir-python", d["python"],
                "--outdir-lua", d["lua"], "--outdir-yaml", d["yaml"], "--logdir", d["log"]]
        mk += [d["c_fortran"], d["python"], d["lua"], d["yaml"], d["log"]]
    elif pat == "cwd_only":
        # no directory option at all: everything goes to the current directory
        argv = []
        mk += [WORK]
    elif pat == "relative":
        # relative to the cwd of the run (WORK)
        argv = ["--outdir", "out_rel", "--outdir-python", "out_rel/py", "--logdir", "./out_rel/log"]
        mk += [WORK + "/out_rel", WORK + "/out_rel/py", WORK + "/out_rel/log"]
    elif pat == "trailing_slash":
        argv = ["--outdir", OUT + "/", "--outdir-c-fortran", d["c_fortran"] + "/", "--logdir", OUT + "//"]
        mk += [OUT, d["c_fortran"]]
    elif pat == "log_apart":
        argv = ["--outdir", OUT, "--logdir", d["log"]]
        mk += [OUT, d["log"]]
    return argv, mk, pat


def swarm_jobs(seeds, n, corpus, label="swarm"):
    """Configuration swarm over the corpus YAMLs."""
    out = []
    for i in range(n):
        rng = seeds.rng(label, i)
        base = rng.choice(corpus)
        dargv, mk, pat = dir_pattern(rng)
        argv = ["--path", IN_DIR] + dargv
        if rng.random() < 0.65:
            # upstream's own test runs set this; real users do not (some output is only
            # produced without it, e.g. source paths in setup.py)
            argv += ["--option", "debug_testsuite=true"]
        if rng.random() < 0.8:
            argv.append("--nowrite-version")
        elif rng.random() < 0.5:
            argv.append("--write-version")
        opts = {}
        for name in rng.sample(BOOL_OPTS, rng.randint(0, 4)):
            opts[name] = rng.choice(["true", "false"])
        for name in rng.sample(sorted(VALUE_OPTS), rng.randint(0, 2)):
            opts[name] = rng.choice(VALUE_OPTS[name])
        # library-level wrap flags: Fortran only together with C
        if rng.random() < 0.7:
            wc = rng.random() < 0.7
            wf = wc and rng.random() < 0.7
            opts.update(wrap_c=str(wc).lower(), wrap_fortran=str(wf).lower(),
                        wrap_python=rng.choice(["true", "false"]),
                        wrap_lua=rng.choice(["true", "false"]))
        for k in sorted(opts):
            argv += ["--option", "%s=%s" % (k, opts[k])]
        # keep the base job's own --language / options first so that ours override
        argv = [a for a in base.meta.get("cmdline", []) if True] + argv
        if "--language" not in argv and rng.random() < 0.15:
            argv = ["--language", rng.choice(["c", "c++"])] + argv
        lists = {}
        if rng.random() < 0.6:
            lists["cfiles"] = rng.choice([OUT + "/cfiles.txt", "/sim/o_log/c.lst", WORK + "/cf.list"])
            lists["ffiles"] = rng.choice([OUT + "/ffiles.txt", "/sim/o_log/f.lst", WORK + "/ff.list"])
            argv += ["--cfiles", lists["cfiles"], "--ffiles", lists["ffiles"]]
            mk += ["/sim/o_log"]
        if rng.random() < 0.1:
            argv += ["--write-helpers", "helpers", "--write-statements", "statements"]
        if rng.random() < 0.1:
            argv += ["--yaml-types", "def_types.yaml"]
        yaml = IN_DIR + "/" + base.meta["yaml"] + ".yaml"
        argv.append(yaml)
        files = base.files
        for p in lists.values():
            mk.append(p.rsplit("/", 1)[0])
        if rng.random() < 0.3 and "\noptions:\n" in files[yaml]:
            files = dict(files)
            add = ""
            for name in rng.sample(sorted(NUM_OPTS), rng.randint(1, 2)):
                opts[name] = rng.choice(NUM_OPTS[name])
                add += "  %s: %s\n" % (name, opts[name])
            files[yaml] = files[yaml].replace("\noptions:\n", "\noptions:\n" + add, 1)
        if "\nsplicer:\n" in files[yaml] and rng.random() < 0.6:
            # the same splicer files, plus explicit splicer_code nested under sections the files also use
            files = dict(files)
            tag = "sw%d" % i
            files[yaml] = files[yaml] + (
                "\nsplicer_code:\n  c:\n    function:\n      injected_%s:\n      - // injected by %s\n"
                "    C_definitions:\n    - // file level code of %s\n"
                "  f:\n    function:\n      injected_%s:\n      - ! injected by %s\n"
                "    additional_functions:\n    - ! extra functions of %s\n") % (tag, tag, tag, tag, tag, tag)
            opts["splicer_code"] = tag
        out.append(Job("%s/%d-%s" % (label, i, base.id.split("/")[1]), files, argv,
                       sorted(set(mk)),
                       meta={"source": label, "yaml": base.meta["yaml"], "dirpat": pat,
                             "opts": opts, "lists": lists, "cwd_free": pat not in ("no_outdir", "relative", "cwd_only")}))
    return out


# ------------------------------------------------------------------ poison
def poison_jobs(seeds, n, corpus):
    """Invalid variants of corpus jobs, used as predecessors that abort."""
    out = []
    kinds = ["syntax", "unknown_type", "bad_attr", "missing_splicer", "bad_yaml", "bad_template",
             "dup_class"]
    for i in range(n):
        rng = seeds.rng("poison", i)
        base = rng.choice(corpus)
        kind = kinds[i % len(kinds)]
        ypath = IN_DIR + "/" + base.meta["yaml"] + ".yaml"
        text = base.files[ypath]
        lines = text.split("\n")
        decl_idx = [k for k, l in enumerate(lines) if re.match(r"\s*- decl:", l)]
        files = dict(base.files)
        if kind == "missing_splicer":
            text = text + "\nsplicer:\n  c:\n  - no_such_splicer_file.c\n"
        elif kind == "bad_yaml":
            text = text + "\n  : : [unbalanced\n"
        elif not decl_idx:
            text = text + "\ndeclarations:\n- decl: int (\n"
        else:
            k = decl_idx[min(len(decl_idx) - 1, int(rng.random() * len(decl_idx)))]
            indent = re.match(r"(\s*)", lines[k]).group(1)
            if kind == "syntax":
                lines[k] = indent + "- decl: int broken(("
            elif kind == "unknown_type":
                lines[k] = indent + "- decl: void takes_unknown(no_such_type_xyz *arg)"
            elif kind == "bad_attr":
                lines[k] = indent + "- decl: void bad_attr(int *arg +intent(sideways))"
            elif kind == "bad_template":
                lines[k] = indent + "- decl: template<typename T> void tfunc(T arg)"
            elif kind == "dup_class":
                lines[k] = indent + "- decl: void dimension_bad(int *arg +dimension(+))"
            text = "\n".join(lines)
        files[ypath] = text
        out.append(Job("poison/%d-%s-%s" % (i, kind, base.id.split("/")[1]), files, base.argv,
                       base.mkdirs, meta={"source": "poison", "kind": kind,
                                          "yaml": base.meta["yaml"]}))
    return out


def nopath_api_jobs():
    """Libraries meant for shroud.create_wrapper(filename, outdir) *without* a path: the splicer
    files listed in the YAML are found relative to the current directory, which is the YAML's own
    directory.  Two such libraries live in different directories and name their splicer files alike."""
    out = []
    for tag, d in (("one", "/sim/srcA"), ("two", "/sim/srcB"), ("three", "/sim/srcC")):
        yaml_text = ("copyright:\n- library %(t)s\n-\nlibrary: np%(t)s\ncxx_header: np%(t)s.hpp\n"
                     "options:\n  debug: True\nsplicer:\n  c:\n  - usercode.c\n  f:\n  - usercode.f\n"
                     "declarations:\n- decl: int func_%(t)s(int arg)\n- decl: void shared_name(double x)\n") % {"t": tag}
        csp = ("// splicer begin C_definitions\n// C definitions of %(t)s\n// splicer end C_definitions\n"
               "// splicer begin function.shared_name\n// body from %(t)s\nshared_name(x);\n"
               "// splicer end function.shared_name\n") % {"t": tag}
        fsp = ("! splicer begin additional_functions\n! functions of %(t)s\n! splicer end additional_functions\n") % {"t": tag}
        files = {d + "/np%s.yaml" % tag: yaml_text, d + "/usercode.c": csp, d + "/usercode.f": fsp}
        fn = d + "/np%s.yaml" % tag
        out.append(Job("apinp/" + tag, files, ["--outdir", OUT, fn], [OUT, d], cwd=d,
                       api={"filename": fn, "outdir": OUT, "path": None},
                       meta={"source": "apinp", "yaml": "np" + tag, "cwd_free": False}))
    return out


def shared_splicer_jobs():
    """Variants of one small library that read the *same* splicer files; some add explicit
    splicer_code for other blocks of sections the files also use (function.*), some do not."""
    d = "/sim/shared"
    base = ("copyright:\n- shared splicer files\n-\nlibrary: shlib\ncxx_header: shlib.hpp\noptions:\n  debug: True\n"
            "splicer:\n  c:\n  - shared.c\n  f:\n  - shared.f\n"
            "declarations:\n- decl: int alpha_one(int arg)\n- decl: void beta_two(const std::string &name)\n"
            "- decl: double gamma_three(double x = 1.5)\n")
    csp = ("// splicer begin function.alpha_one\n// alpha from the shared file\nreturn alpha_one(arg);\n"
           "// splicer end function.alpha_one\n// splicer begin C_definitions\n// shared C definitions\n"
           "// splicer end C_definitions\n")
    fsp = ("! splicer begin function.alpha_one\n! alpha from the shared file\nSHT_rv = c_alpha_one(arg)\n"
           "! splicer end function.alpha_one\n")
    out = []
    for k, code in enumerate([None,
                              "splicer_code:\n  c:\n    function:\n      beta_two_bufferify:\n      - // beta from splicer_code %d\n"
                              "      - beta_two(std::string(name, Lname));\n  f:\n    function:\n      gamma_three:\n      - ! gamma %d\n",
                              "splicer_code:\n  c:\n    function:\n      gamma_three:\n      - // gamma from splicer_code %d\n"
                              "      - return gamma_three(x);\n"]):
        text = base + ((code % ((k,) * code.count("%d"))) if code else "")
        fn = d + "/shlib%d.yaml" % k
        # a like-named file of another project lies in the directory the second golden run starts from:
        # with --path given, only --path is searched
        decoy = "// splicer begin function.alpha_one\n// DECOY from the current directory\n// splicer end function.alpha_one\n"
        files = {fn: text, d + "/shared.c": csp, d + "/shared.f": fsp, "/sim/other/cwd/shared.c": decoy}
        out.append(Job("shsplice/%d" % k, files, ["--path", d, "--outdir", OUT, "--logdir", OUT, "--nowrite-version", fn],
                       [OUT, WORK, d], meta={"source": "shsplice", "yaml": "shlib", "cwd_free": True}))
    return out
