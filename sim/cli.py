"""vcheck entry point: python sim/cli.py <PROPERTY> [options]."""
import os
import sys

sys.path.insert(0, os.path.dirname(os.path.dirname(os.path.abspath(__file__))))


def main():
    if len(sys.argv) < 2:
        print("usage: vcheck <C06|C07|C12|C15> [--tier quick|thorough] [--seed N] [--replay FILE]")
        return 2
    prop = sys.argv[1].upper()
    argv = sys.argv[2:]
    if prop == "C07":
        from sim import gcheck
        return gcheck.GEngine(gcheck.parse_args(prop, argv)).main()
    if prop == "C15":
        from sim import c15
        return c15.main(argv)
    if prop == "C12":
        from sim import c12
        return c12.main(argv)
    if prop == "C06":
        from sim import c06
        return c06.main(argv)
    print("unknown property", prop)
    return 2


if __name__ == "__main__":
    try:
        code = main()
    except SystemExit:
        raise
    except BaseException:
        import traceback
        traceback.print_exc()
        print("HARNESS-ERROR: uncaught exception in the check driver")
        code = 3
    sys.exit(code)
