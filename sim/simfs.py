"""SimFS: an in-memory filesystem behind builtins.open / os.path.isdir / isfile.

open() returns CPython's real TextIOWrapper / Buffered* objects stacked on a
SimRaw(io.RawIOBase), so buffering, newline translation and encoding behave as
on a real disk while every raw write / close passes a fault gate and is logged.

Only paths under VROOT ("/sim") and relative paths (resolved against the
virtual cwd, which is always under VROOT) are simulated.  Reads of other
absolute paths fall through to the real filesystem (logged as read escapes);
writes to them are captured inside SimFS and logged as *write escapes*.
"""
import errno
import io
import os
import posixpath
import sys

from .seeds import sha1

VROOT = "/sim"

_real_open = io.open
_real_isdir = os.path.isdir
_real_isfile = os.path.isfile
_real_exists = os.path.exists


SELFBREAK = os.environ.get("VERIF_SELFBREAK", "")
_SELFBREAK_RUNS = 0
_SELFBREAK_SEEN = set()


class FaultPlan(object):
    """Fire one fault at the first fs op with index >= k whose type fits kind.

    kinds: open_eacces (any open), open_enoent (open for reading),
           write_enospc (raw write: n bytes land, then ENOSPC),
           close_eio (close of a file opened for writing)
    """

    KINDS = ("open_eacces", "open_enoent", "write_enospc", "close_eio")

    def __init__(self, kind, k, nbytes=0):
        assert kind in self.KINDS
        self.kind = kind
        self.k = int(k)
        self.nbytes = int(nbytes)
        self.fired = False

    def to_json(self):
        return {"kind": self.kind, "k": self.k, "nbytes": self.nbytes}

    @classmethod
    def from_json(cls, d):
        if d is None:
            return None
        return cls(d["kind"], d["k"], d.get("nbytes", 0))


class RunTrace(object):
    """What one simulated run did to the filesystem."""

    def __init__(self):
        self.events = []  # (kind, path, detail)
        self.reads = []  # paths opened for reading, in order
        self.writes = []  # paths opened for writing, in order (may repeat)
        self.written = {}  # path -> bytes at last close
        self.emitter = {}  # path -> emitter tag (first writer)
        self.callers = {}  # path -> "module.function" chain
        self.escapes = []  # (kind, path)
        self.open_write_unclosed = set()
        self.nops = 0
        self.faults_fired = []
        self.read_after_trunc = []  # paths read after being truncated in this run

    def ev(self, kind, path, detail=""):
        self.events.append((kind, path, detail))


class SimRaw(io.RawIOBase):
    def __init__(self, fs, path, reading, writing, append):
        io.RawIOBase.__init__(self)
        self.fs = fs
        self.path = path
        self._reading = reading
        self._writing = writing
        self._append = append
        self._pos = 0
        self.name = path
        self.trace = fs.trace  # the run this handle belongs to

    def fileno(self):
        """A (fake) descriptor of its own, so that os.fsync(f.fileno()) / os.fstat work."""
        if getattr(self, "_fd", None) is None:
            self._fd = self.fs.FD_BASE + len(self.fs._fds)
            self.fs._fds[self._fd] = self
        return self._fd

    def isatty(self):
        return False

    def readable(self):
        return self._reading

    def writable(self):
        return self._writing

    def seekable(self):
        return True

    def readinto(self, b):
        data = self.fs.files.get(self.path)
        if data is None:
            raise OSError(errno.EIO, "file vanished", self.path)
        n = max(0, min(len(b), len(data) - self._pos))
        b[:n] = data[self._pos : self._pos + n]
        self._pos += n
        return n

    def write(self, b):
        b = bytes(b)
        allowed = self.fs._gate_write(self, len(b))
        data = self.fs.files.setdefault(self.path, bytearray())
        if self._append:
            self._pos = len(data)
        part = b if allowed is None else b[:allowed]
        if self._pos > len(data):
            data.extend(b"\x00" * (self._pos - len(data)))
        data[self._pos : self._pos + len(part)] = part
        self._pos += len(part)
        if allowed is not None:
            raise OSError(errno.ENOSPC, "No space left on device (simulated)", self.path)
        return len(b)

    def seek(self, pos, whence=0):
        data = self.fs.files.get(self.path, b"")
        if whence == 0:
            self._pos = pos
        elif whence == 1:
            self._pos += pos
        else:
            self._pos = len(data) + pos
        return self._pos

    def tell(self):
        return self._pos

    def truncate(self, size=None):
        if size is None:
            size = self._pos
        data = self.fs.files.setdefault(self.path, bytearray())
        del data[size:]
        return size

    def close(self):
        if self.closed:
            return
        io.RawIOBase.close(self)
        self.fs._on_close(self)


class SimFS(object):
    def __init__(self):
        self.files = {}  # path -> bytearray
        self.dirs = set([VROOT])
        self.cwd = VROOT
        self.trace = RunTrace()
        self.fault = None
        self.encoding = "utf-8"
        self.tagger = None  # callable() -> (emitter, chain)
        self._fds = {}
        self.stat_time = 1.0e9  # what os.stat reports as mtime (set from the simulated clock)
        self.mtick = {}  # path -> sequence number of its last modification (mtimes differ per write)
        self._wseq = 0

    # ---- state helpers (used by the harness, not by the system under test)
    def norm(self, path):
        path = os.fspath(path)
        if isinstance(path, bytes):
            path = path.decode("utf-8")
        if not path.startswith("/"):
            path = posixpath.join(self.cwd, path)
        return posixpath.normpath(path)

    @staticmethod
    def is_sim(npath):
        return npath == VROOT or npath.startswith(VROOT + "/")

    def mkdir(self, path):
        p = self.norm(path)
        while self.is_sim(p):
            self.dirs.add(p)
            if p == VROOT:
                break
            p = posixpath.dirname(p)

    def put(self, path, content):
        p = self.norm(path)
        if isinstance(content, str):
            content = content.encode("utf-8")
        self.mkdir(posixpath.dirname(p))
        if p in self.files and bytes(self.files[p]) == bytes(content):
            return  # staging an unchanged input file again leaves its time stamp alone
        self.files[p] = bytearray(content)
        self.touch(p)

    def get(self, path):
        d = self.files.get(self.norm(path))
        return None if d is None else bytes(d)

    def snapshot(self):
        return {
            "files": {p: bytes(d).decode("latin-1") for p, d in sorted(self.files.items())},
            "dirs": sorted(self.dirs),
            "cwd": self.cwd,
        }

    def restore(self, snap):
        self.files = {p: bytearray(s.encode("latin-1")) for p, s in snap["files"].items()}
        self.dirs = set(snap["dirs"])
        self.cwd = snap["cwd"]

    def state_digest(self):
        return sha1(
            "\n".join("%s %s" % (p, sha1(bytes(d))) for p, d in sorted(self.files.items()))
            + "\n".join(sorted(self.dirs))
        )

    def begin_run(self, fault=None):
        self.trace = RunTrace()
        self.fault = fault
        return self.trace

    # ---- fault gates
    def _next_op(self):
        n = self.trace.nops
        self.trace.nops += 1
        return n

    def _fault_due(self, n, *kinds):
        f = self.fault
        if f is not None and not f.fired and f.kind in kinds and n >= f.k:
            f.fired = True
            self.trace.faults_fired.append(f.kind)
            return f
        return None

    def _gate_write(self, raw, nbytes):
        path = raw.path
        if raw.trace is not self.trace:
            # late flush of a handle left open by an earlier, aborted run
            raw.trace.ev("late-write", path, nbytes)
            return None
        n = self._next_op()
        self.trace.ev("write", path, nbytes)
        f = self._fault_due(n, "write_enospc")
        if f is not None:
            allowed = min(f.nbytes, nbytes)
            self.trace.ev("fault", path, "write_enospc@%d" % allowed)
            return allowed
        return None

    def _on_close(self, raw):
        path = raw.path
        if raw.trace is not self.trace:
            raw.trace.ev("late-close", path, "")
            raw.trace.open_write_unclosed.discard(path)
            return
        n = self._next_op()
        if raw._writing:
            data = bytes(self.files.get(path, b""))
            if SELFBREAK:
                data = self._selfbreak(path, data)
            self.touch(path)
            self.trace.written[path] = data
            self.trace.open_write_unclosed.discard(path)
            self.trace.ev("close", path, sha1(data))
            f = self._fault_due(n, "close_eio")
            if f is not None:
                self.trace.ev("fault", path, "close_eio")
                raise OSError(errno.EIO, "Input/output error (simulated)", path)
        else:
            self.trace.ev("close", path, "r")

    def _selfbreak(self, path, data):
        """tools/selfbreak.sh only (VERIF_SELFBREAK set): the *seam* misbehaves the way a broken
        shroud would, to show that each pipeline turns such behaviour into a VIOLATION."""
        import re as _re
        global _SELFBREAK_RUNS
        if SELFBREAK == "hashseed" and path.endswith(".h"):
            data += b"/* %d */\n" % (hash("selfbreak") & 3)  # depends on PYTHONHASHSEED
        elif SELFBREAK == "state" and path.endswith(".h"):
            if id(self.trace) not in _SELFBREAK_SEEN:
                _SELFBREAK_SEEN.add(id(self.trace))
                _SELFBREAK_RUNS += 1
            if _SELFBREAK_RUNS > 1:
                data += b"/* not the first run of this process */\n"
        elif SELFBREAK == "escape" and path.endswith(".f"):
            stray = "/sim/stray/" + path.rsplit("/", 1)[-1]
            self.dirs.add("/sim/stray")
            self.files[stray] = bytearray(data)
            self.trace.written[stray] = data
            self.trace.ev("close", stray, sha1(data))
        elif SELFBREAK == "dropline":
            lines = data.split(b"\n")
            keep = [l for l in lines if not _re.search(rb"u\d+x\d+k1\b", l)]
            data = b"\n".join(keep)
        self.files[path] = bytearray(data)
        return data

    # ---- the seam itself
    def open(self, file, mode="r", buffering=-1, encoding=None, errors=None,
             newline=None, closefd=True, opener=None):
        if isinstance(file, int):
            return _real_open(file, mode, buffering, encoding, errors, newline, closefd, opener)
        p = self.norm(file)
        m = set(mode)
        binary = "b" in m
        writing = bool(m & set("wax+"))
        reading = "r" in m or "+" in m
        if not self.is_sim(p):
            if not writing:
                self.trace.escapes.append(("read", p))
                self.trace.ev("escape-read", p)
                return _real_open(file, mode, buffering, encoding, errors, newline, closefd, opener)
            self.trace.escapes.append(("write", p))
            self.trace.ev("escape-write", p)
            # captured inside SimFS so that nothing reaches the real disk
            self.dirs.add(posixpath.dirname(p))
        n = self._next_op()
        self.trace.ev("open", p, mode)
        f = self._fault_due(n, "open_eacces") or (
            self._fault_due(n, "open_enoent") if (reading and not writing) else None
        )
        if f is not None:
            self.trace.ev("fault", p, f.kind)
            if f.kind == "open_eacces":
                raise PermissionError(errno.EACCES, "Permission denied (simulated)", str(file))
            raise FileNotFoundError(errno.ENOENT, "No such file or directory (simulated)", str(file))
        if p in self.dirs:
            raise IsADirectoryError(errno.EISDIR, "Is a directory", str(file))
        parent = posixpath.dirname(p)
        if parent not in self.dirs:
            raise FileNotFoundError(errno.ENOENT, "No such file or directory", str(file))
        exists = p in self.files
        if "x" in m and exists:
            raise FileExistsError(errno.EEXIST, "File exists", str(file))
        if "r" in m and not exists:
            raise FileNotFoundError(errno.ENOENT, "No such file or directory", str(file))
        if reading and not ("w" in m):
            self.trace.reads.append(p)
            if p in self.trace.written or p in self.trace.open_write_unclosed:
                self.trace.read_after_trunc.append(p)
        if writing:
            self.trace.writes.append(p)
            self.trace.open_write_unclosed.add(p)
            if p not in self.trace.emitter and self.tagger is not None:
                tag, chain = self.tagger()
                self.trace.emitter[p] = tag
                self.trace.callers[p] = chain
            if "w" in m or not exists:
                self.files[p] = bytearray()
        raw = SimRaw(self, p, reading, writing, "a" in m)
        raw.mode = mode
        if buffering == 0:
            if not binary:
                raise ValueError("can't have unbuffered text I/O")
            return raw
        bufsize = io.DEFAULT_BUFFER_SIZE if buffering in (-1, 1) else buffering
        if "+" in m:
            buf = io.BufferedRandom(raw, bufsize)
        elif writing:
            buf = io.BufferedWriter(raw, bufsize)
        else:
            buf = io.BufferedReader(raw, bufsize)
        if binary:
            return buf
        text = io.TextIOWrapper(buf, encoding or self.encoding, errors, newline,
                                line_buffering=(buffering == 1))
        text.mode = mode
        return text

    # ---- os-level file API (fake descriptors, rename, remove, listdir, stat)
    FD_BASE = 1 << 20

    def os_open(self, path, flags, mode=0o777):
        """os.open for simulated paths: returns a fake descriptor."""
        p = self.norm(path)
        acc = flags & (os.O_RDONLY | os.O_WRONLY | os.O_RDWR)
        writing = acc in (os.O_WRONLY, os.O_RDWR) or bool(flags & (os.O_CREAT | os.O_TRUNC | os.O_APPEND))
        reading = acc in (os.O_RDONLY, os.O_RDWR)
        n = self._next_op()
        self.trace.ev("os.open", p, flags)
        f = self._fault_due(n, "open_eacces") or (
            self._fault_due(n, "open_enoent") if (reading and not writing) else None)
        if f is not None:
            self.trace.ev("fault", p, f.kind)
            if f.kind == "open_eacces":
                raise PermissionError(errno.EACCES, "Permission denied (simulated)", str(path))
            raise FileNotFoundError(errno.ENOENT, "No such file or directory (simulated)", str(path))
        if p in self.dirs:
            raise IsADirectoryError(errno.EISDIR, "Is a directory", str(path))
        if posixpath.dirname(p) not in self.dirs:
            raise FileNotFoundError(errno.ENOENT, "No such file or directory", str(path))
        exists = p in self.files
        if exists and (flags & os.O_CREAT) and (flags & os.O_EXCL):
            raise FileExistsError(errno.EEXIST, "File exists", str(path))
        if not exists and not (flags & os.O_CREAT):
            raise FileNotFoundError(errno.ENOENT, "No such file or directory", str(path))
        if writing:
            self.trace.writes.append(p)
            self.trace.open_write_unclosed.add(p)
            if p not in self.trace.emitter and self.tagger is not None:
                tag, chain = self.tagger()
                self.trace.emitter[p] = tag
                self.trace.callers[p] = chain
            if not exists or (flags & os.O_TRUNC):
                self.files[p] = bytearray()
        else:
            self.trace.reads.append(p)
        raw = SimRaw(self, p, reading, writing, bool(flags & os.O_APPEND))
        fd = self.FD_BASE + len(self._fds)
        self._fds[fd] = raw
        return fd

    def is_fake_fd(self, fd):
        return isinstance(fd, int) and fd in self._fds

    def os_fdopen(self, fd, mode="r", buffering=-1, encoding=None, errors=None, newline=None, **kw):
        raw = self._fds[fd]
        m = set(mode)
        raw.mode = mode
        if "b" in m and buffering == 0:
            return raw
        bufsize = io.DEFAULT_BUFFER_SIZE if buffering in (-1, 1) else buffering
        if raw._reading and raw._writing:
            buf = io.BufferedRandom(raw, bufsize)
        elif raw._writing:
            buf = io.BufferedWriter(raw, bufsize)
        else:
            buf = io.BufferedReader(raw, bufsize)
        if "b" in m:
            return buf
        text = io.TextIOWrapper(buf, encoding or self.encoding, errors, newline, line_buffering=(buffering == 1))
        text.mode = mode
        return text

    def os_write(self, fd, data):
        return self._fds[fd].write(data)

    def os_read(self, fd, n):
        b = bytearray(n)
        k = self._fds[fd].readinto(b)
        return bytes(b[:k])

    def os_close(self, fd):
        self._fds[fd].close()

    def os_rename(self, src, dst):
        a, b = self.norm(src), self.norm(dst)
        if a not in self.files:
            raise FileNotFoundError(errno.ENOENT, "No such file or directory", str(src))
        if posixpath.dirname(b) not in self.dirs:
            raise FileNotFoundError(errno.ENOENT, "No such file or directory", str(dst))
        self._next_op()
        self.trace.ev("rename", a, b)
        data = self.files.pop(a)
        self.files[b] = data
        self.mtick[b] = self.mtick.pop(a, 0) or self._wseq
        # the destination now holds what this run wrote to the source
        self.trace.written.pop(a, None)
        self.trace.written[b] = bytes(data)
        if a in self.trace.emitter:
            self.trace.emitter.setdefault(b, self.trace.emitter[a])
            self.trace.callers.setdefault(b, self.trace.callers.get(a, ""))
        elif self.tagger is not None:
            tag, chain = self.tagger()
            self.trace.emitter.setdefault(b, tag)
            self.trace.callers.setdefault(b, chain)

    def os_remove(self, path):
        p = self.norm(path)
        if p not in self.files:
            raise FileNotFoundError(errno.ENOENT, "No such file or directory", str(path))
        self._next_op()
        self.trace.ev("remove", p)
        del self.files[p]
        self.trace.written.pop(p, None)

    def os_listdir(self, path="."):
        p = self.norm(path)
        if p not in self.dirs:
            raise FileNotFoundError(errno.ENOENT, "No such file or directory", str(path))
        pre = p.rstrip("/") + "/"
        names = set()
        for q in list(self.files) + list(self.dirs):
            if q.startswith(pre) and q != p:
                names.add(q[len(pre):].split("/")[0])
        self.trace.ev("listdir", p, len(names))
        return sorted(names)

    def os_makedirs(self, path, mode=0o777, exist_ok=False):
        p = self.norm(path)
        if p in self.dirs and not exist_ok:
            raise FileExistsError(errno.EEXIST, "File exists", str(path))
        self.mkdir(p)

    def os_stat(self, path):
        p = self.norm(path)
        import stat as _stat
        if p in self.dirs:
            md, size = _stat.S_IFDIR | 0o755, 4096
        elif p in self.files:
            md, size = _stat.S_IFREG | 0o644, len(self.files[p])
        else:
            raise FileNotFoundError(errno.ENOENT, "No such file or directory", str(path))
        self.trace.ev("stat", p, size)
        # a file that is written again gets a later time stamp (1 ms per modification): code that
        # keys caches on (size, mtime), like filecmp, must see rewritten files as new
        t = self.stat_time + 0.001 * self.mtick.get(p, 0)
        return os.stat_result((md, 1 + self.mtick.get(p, 0), 1, 1, 0, 0, size, t, t, t))

    def touch(self, p):
        self._wseq += 1
        self.mtick[p] = self._wseq

    def isdir(self, path):
        try:
            p = self.norm(path)
        except TypeError:
            return False
        if self.is_sim(p):
            r = p in self.dirs
            self.trace.ev("isdir", p, r)
            return r
        return _real_isdir(path)

    def isfile(self, path):
        try:
            p = self.norm(path)
        except TypeError:
            return False
        if self.is_sim(p):
            r = p in self.files
            self.trace.ev("isfile", p, r)
            return r
        return _real_isfile(path)

    def exists(self, path):
        try:
            p = self.norm(path)
        except TypeError:
            return False
        if self.is_sim(p):
            return p in self.files or p in self.dirs
        return _real_exists(path)
