"""Batch driver side: goldens, factories, rounds.  Never imports shroud."""
import atexit
import concurrent.futures as cf
import json
import os
import pickle
import shutil
import subprocess
import sys
import tempfile
import time

from .jobs import Job
from .seam import SimEnv

PY = sys.executable
HERE = os.path.dirname(os.path.abspath(__file__))
NFACTORY = 16  # fixed: history i always runs in factory i % NFACTORY, whatever the pool size

_scratch = None


def scratch_dir():
    """A private scratch directory outside /repo and /verif, removed at exit."""
    global _scratch
    if _scratch is None:
        _scratch = tempfile.mkdtemp(prefix="shroudsim-")
        atexit.register(shutil.rmtree, _scratch, True)
    return _scratch


def child_env(hashseed):
    e = dict(os.environ)
    e["PYTHONHASHSEED"] = str(hashseed)
    e.setdefault("SHROUD_VERIF", "1")
    e["PYTHONDONTWRITEBYTECODE"] = "1"
    return e


ENV_A = {"clock": 1.6e9, "host": "simhost", "user": "simuser", "pid": 4242,
         "environ": {"HOME": "/sim/home", "LANG": "C.UTF-8", "PATH": "/usr/bin:/bin"}}
ENV_B = {"clock": 2.05e9 + 86400 * 200 + 3600 * 13 + 777, "host": "other-node-17.example.org",
         "user": "builder2", "pid": 31337,
         "environ": {"HOME": "/sim/elsewhere", "LANG": "en_US.UTF-8", "TZ": "Asia/Tokyo",
                     "USER": "builder2", "SOURCE_DATE_EPOCH": "86400", "HOSTNAME": "other-node-17",
                     "SHROUD_DEBUG": "1", "PWD": "/sim/other/cwd"},
         # variables the interpreter itself reads at start-up (real process environment of the fresh run)
         # (VERIF_PATH_FIRST: a directory put in front of the tree on sys.path, as in
         # PYTHONPATH=/other/project:/path/to/shroud; it holds only the metadata of *another* installation)
         "interp": {"PYTHONOPTIMIZE": "1", "PYTHONUTF8": "1", "VERIF_PATH_FIRST": os.path.join(HERE, "envdist")}}


def fresh_run(job, env, hashseed, snapshot=None, entry="cli", want_after=False, timeout=180):
    spec = {"job": job.to_json(), "snapshot": snapshot, "env": env, "entry": entry,
            "want_after": want_after}
    p = subprocess.run([PY, os.path.join(HERE, "fresh.py")], input=json.dumps(spec),
                       capture_output=True, text=True,
                       env=dict(child_env(hashseed), **(env.get("interp") or {})), timeout=timeout)
    if p.returncode != 0:
        return {"status": "harness-error", "message": p.stderr[-1500:], "files": {},
                "trace": {"nops": 0, "reads": [], "written": {}, "escapes": []}, "probed": [], "env_used": env}
    r = json.loads(p.stdout)
    r["env_used"] = env
    return r


def compute_goldens(jobs, seeds, workers=16):
    """G1 and G2 per job: two fresh interpreters, different hash seed, clock, host,
    pid, environment and (where every path is absolute) cwd."""
    def one(job):
        h1 = seeds.hashseed("golden", job.id, 1)
        h2 = seeds.hashseed("golden", job.id, 2)
        g1 = fresh_run(job, ENV_A, h1)
        jb = job
        if job.meta.get("cwd_free"):
            jb = job.clone(cwd="/sim/other/cwd")
        g2 = fresh_run(jb, ENV_B, h2)
        # taint-directed perturbation: every environment variable either run looked up (set or
        # not) gets an odd value in a third run, which must still produce the same bytes
        names = sorted(set(k[len("environ:"):] for g in (g1, g2) for k in (g.get("env_reads") or {})
                           if k.startswith("environ:") and k != "environ:*"))
        if names and g1.get("status") == "ok" and g2.get("status") == "ok" and g1["files"] == g2["files"]:
            env3 = dict(ENV_B)
            env3["environ"] = dict(ENV_B["environ"])
            for i, n in enumerate(names):
                env3["environ"][n] = "shroud-sim-perturbed-%d" % i
            g3 = fresh_run(jb, env3, h2)
            g3["perturbed_environment"] = names
            if g3.get("status") != "ok" or g3["files"] != g2["files"]:
                g2 = g3  # reported as golden instability
        return job.id, g1, g2

    out = {}
    with cf.ThreadPoolExecutor(max_workers=workers) as ex:
        for jid, g1, g2 in ex.map(one, jobs):
            out[jid] = (g1, g2)
    return out


def write_campaign(jobs, goldens, name="campaign"):
    """jobs: {jid: Job}; goldens: {jid: golden dict}."""
    path = os.path.join(scratch_dir(), "%s-%d.pickle" % (name, time.monotonic_ns()))
    with open(path, "wb") as fp:
        pickle.dump({"jobs": jobs, "goldens": goldens}, fp, protocol=4)
    return path


def run_round(specs, camp_path, seeds, round_no, executor="sim.history:execute_history_from_campaign",
              workers=16, hashseed_override=None, cap=None):
    """Run history specs in NFACTORY factories; returns results in spec order.

    The factory (hence the hash seed) of a history is a function of its index
    only, never of the worker count.
    """
    sd = scratch_dir()
    groups = {}
    for i, spec in enumerate(specs):
        spec.setdefault("hid", i)
        groups.setdefault(i % NFACTORY, []).append(spec)
    procs = []
    tag = "%d-%d" % (round_no, time.monotonic_ns())

    def launch(f):
        sp = os.path.join(sd, "specs-%s-%d.jsonl" % (tag, f))
        op = os.path.join(sd, "res-%s-%d.jsonl" % (tag, f))
        with open(sp, "w") as fp:
            for s in groups[f]:
                fp.write(json.dumps(s) + "\n")
        hs = hashseed_override if hashseed_override is not None else seeds.hashseed("factory", round_no, f)
        e = child_env(hs)
        if cap:
            e["SIM_HISTORY_CAP"] = str(cap)
        p = subprocess.run([PY, os.path.join(HERE, "factory.py"), camp_path, sp, op, executor],
                           env=e, capture_output=True, text=True)
        res = []
        if os.path.exists(op):
            with open(op) as fp:
                res = [json.loads(line) for line in fp if line.strip()]
            os.unlink(op)
        os.unlink(sp)
        done = set(r.get("hid") for r in res)
        for s in groups[f]:
            if s["hid"] not in done:
                res.append({"hid": s["hid"], "error": "harness: factory died: " + p.stderr[-1500:]})
        for r in res:
            r.setdefault("hashseed", str(hs))
        return res

    results = {}
    with cf.ThreadPoolExecutor(max_workers=workers) as ex:
        for res in ex.map(launch, sorted(groups)):
            for r in res:
                results[r["hid"]] = r
    return [results[s["hid"]] for s in specs]
