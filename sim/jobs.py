"""Jobs: (input files, argv) pairs that the simulated host processes.

Three sources (DESIGN.md 3.2): the upstream corpus (parsed out of
regression/do-test.py at run time), a configuration swarm over corpus YAMLs,
and synthetic libraries (sim/synth.py).  Everything is materialised as text so
that a replay file is self-contained.
"""
import ast as pyast
import os

REPO = os.environ.get("SHROUD_REPO", "/repo")

IN_DIR = "/sim/in"
OUT = "/sim/out"
WORK = "/sim/work"


class Job(object):
    def __init__(self, jid, files, argv, mkdirs, cwd=WORK, api=None, meta=None):
        self.id = jid
        self.files = dict(files)  # abs sim path -> text
        self.argv = list(argv)
        self.mkdirs = list(mkdirs)
        self.cwd = cwd
        self.api = api  # None or dict(filename, outdir, path)
        self.meta = dict(meta or {})

    def to_json(self):
        return {"id": self.id, "files": self.files, "argv": self.argv,
                "mkdirs": self.mkdirs, "cwd": self.cwd, "api": self.api,
                "meta": self.meta}

    @classmethod
    def from_json(cls, d):
        return cls(d["id"], d["files"], d["argv"], d["mkdirs"], d.get("cwd", WORK),
                   d.get("api"), d.get("meta"))

    def clone(self, jid=None, **kw):
        j = Job.from_json(self.to_json())
        if jid:
            j.id = jid
        for k, v in kw.items():
            setattr(j, k, v)
        return j


def read_input_dir():
    """All files of regression/input as {name: text}."""
    d = os.path.join(REPO, "regression", "input")
    out = {}
    for name in sorted(os.listdir(d)):
        p = os.path.join(d, name)
        if os.path.isfile(p):
            with open(p, "r", encoding="utf-8", errors="surrogateescape") as fp:
                out[name] = fp.read()
    return out


def parse_do_test():
    """Return [(name, yamlbase, cmdline)] from regression/do-test.py."""
    path = os.path.join(REPO, "regression", "do-test.py")
    with open(path, "r") as fp:
        tree = pyast.parse(fp.read())
    found = []
    for node in pyast.walk(tree):
        if isinstance(node, pyast.Assign) and any(
            isinstance(t, pyast.Name) and t.id == "availTests" for t in node.targets
        ):
            for call in node.value.elts:
                if not (isinstance(call, pyast.Call) and getattr(call.func, "id", "") == "TestDesc"):
                    continue
                name = pyast.literal_eval(call.args[0])
                kw = {k.arg: pyast.literal_eval(k.value) for k in call.keywords}
                found.append((name, kw.get("yaml") or name, kw.get("cmdline") or []))
    return found


BASE_ARGV = ["--path", IN_DIR, "--logdir", OUT, "--outdir", OUT,
             "--option", "debug_testsuite=true", "--nowrite-version"]


def corpus_jobs():
    inputs = read_input_dir()
    files = {IN_DIR + "/" + n: t for n, t in inputs.items()}
    jobs = []
    for name, yamlbase, cmdline in parse_do_test():
        if yamlbase + ".yaml" not in inputs:
            continue
        argv = BASE_ARGV + list(cmdline) + [IN_DIR + "/" + yamlbase + ".yaml"]
        jobs.append(Job("corpus/" + name, files, argv, [OUT, WORK],
                        meta={"source": "corpus", "yaml": yamlbase, "cmdline": list(cmdline)}))
    return jobs


def api_jobs(yamls=None):
    """Jobs expressible through shroud.create_wrapper(filename, outdir, path)."""
    inputs = read_input_dir()
    files = {IN_DIR + "/" + n: t for n, t in inputs.items()}
    jobs = []
    for n in sorted(inputs):
        if not n.endswith(".yaml"):
            continue
        base = n[:-5]
        if yamls is not None and base not in yamls:
            continue
        fn = IN_DIR + "/" + n
        argv = ["--path", IN_DIR, "--outdir", OUT, fn]
        jobs.append(Job("api/" + base, files, argv, [OUT, WORK],
                        api={"filename": fn, "outdir": OUT, "path": [IN_DIR]},
                        meta={"source": "api", "yaml": base}))
    return jobs


def prune_files(job, read_paths):
    """Keep only the input files a golden run actually opened or probed."""
    keep = set(read_paths)
    job.files = {p: t for p, t in job.files.items() if p in keep}
    return job


# ---------------------------------------------------------------- file kinds
def file_kind(path):
    b = os.path.basename(path)
    ext = os.path.splitext(b)[1]
    if ext == ".log":
        return "log"
    if ext == ".json":
        return "json"
    if ext in (".f", ".f90", ".F", ".F90"):
        return "fortran"
    if ext in (".h", ".hpp", ".hh", ".hxx"):
        return "c-header"
    if ext in (".c", ".cpp", ".cc", ".cxx", ".C"):
        if b.startswith("py"):
            return "py-source"
        if b.startswith("lua"):
            return "lua-source"
        return "c-source"
    if ext == ".py":
        return "py-setup"
    if ext == ".yaml":
        return "yaml-types"
    return "other"
