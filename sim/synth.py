"""Synthetic libraries built to collide in shroud's process-global registries.

Every production is lifted from a documented pattern (the file it was taken
from is named beside it).  Names come from tiny pools so that different
libraries share library names, class names and C prefixes; contents differ.
A synthetic job is only used as a judged target if its fresh-process golden
succeeds, so an imprecision here can never become a false alarm.
"""
from .jobs import Job, IN_DIR, OUT, WORK

COPYRIGHT = ["copyright:", "- Synthetic library for simulation", "-"]

LIBS = ["alpha", "beta", "Alpha"]
CLASSES = ["Foo", "Bar", "Baz"]
PREFIXES = [None, "AL_", "BE_", "AL_"]
CPP_IFS = [None, "ifdef USE_FOO", "if defined(USE_TWO)", "ifndef NO_BAR"]
NAMESPACES = ["ns1", "outer"]

# ---- function productions; {u} is replaced by a per-library unique suffix
FUNCS_CXX = [
    "void fnone{u}()",                                            # tutorial.yaml NoReturnNoArguments
    "double fscalar{u}(double arg1, int arg2)",                   # tutorial.yaml PassByValue
    "int fdefault{u}(int arg1 = 1, int arg2 = 2)",                # tutorial.yaml UseDefaultArguments
    "const std::string fconcat{u}(const std::string& arg1, const std::string& arg2)",  # tutorial.yaml
    "const std::string * fstrown{u}() +owner(caller)",            # strings.yaml getConstStringPtrOwnsAlloc
    "const std::string& fstrref{u}()",                            # strings.yaml getConstStringRefPure
    "std::string fstrval{u}()",                                   # strings.yaml getConstStringResult-like
    "void fstrout{u}(std::string & arg1 +intent(out))",           # strings.yaml acceptStringReferenceOut-like
    "void fcharbuf{u}(char * dest +intent(out)+charlen(40), const char *src)",  # strings.yaml passCharPtr
    "int fvecsum{u}(const std::vector<int> &arg)",                # vectors.yaml vector_sum
    "void fveciota{u}(std::vector<int> &arg+intent(out))",        # vectors.yaml vector_iota_out
    "std::vector<int> fvecret{u}(int n)",                                       # vectors.yaml ReturnVectorAlloc
    "void fvecinc{u}(std::vector<double> &arg+intent(inout))",    # vectors.yaml vector_increment-like
    "int * fptrdim{u}(int *len+intent(out)+hidden) +dimension(len)",          # ownership.yaml
    "int * fptrnew{u}(int *len+intent(out)+hidden) +dimension(len)+owner(caller)",  # ownership.yaml
    "void fintout{u}(int *arg +intent(out))",                     # pointers.yaml
    "void farrin{u}(const double *arg +rank(1), int n +implied(size(arg)))",  # pointers.yaml Sum
    "bool fbool{u}(bool arg)",                                    # types.yaml
    "long fover{u}(long arg)",                                    # tutorial overload pair
    "long fover{u}(long arg, int other)",
    # a name beyond every identifier-length limit (Fortran: 63 characters)
    "void fa_function_whose_name_is_much_longer_than_sixty_three_characters_in_every_language{u}(int arg)",
]
FUNCS_C = [
    "void fnone{u}(void)",                                        # clibrary.yaml NoReturnNoArguments
    "double fscalar{u}(double arg1, int arg2)",                   # clibrary.yaml PassByValue
    "void fintout{u}(int *arg +intent(out))",                     # clibrary.yaml
    "char *fcharret{u}(void)",                                    # clibrary.yaml returnOneName-like
    "void fcharbuf{u}(char * dest +intent(out)+charlen(40), const char *src)",
    "void farrin{u}(const double *arg +rank(1), int n +implied(size(arg)))",
    "int * fptrdim{u}(int *len+intent(out)+hidden) +dimension(len)",
    "bool fbool{u}(bool arg)",
    "void fa_function_whose_name_is_much_longer_than_sixty_three_characters_in_every_language{u}(int arg)",
]
STRUCT_FUNCS = [                                                  # struct.yaml
    "int fstructval{u}({S} arg)",
    "int fstructptr{u}(const {S} *arg)",
    "void fstructout{u}({S} *arg +intent(out))",
    "{S} fstructret{u}(int i, double d)",
    "{S} *fstructretptr{u}(int i, double d)",
]
CLASS_FUNCS = [                                                   # classes.yaml
    "int useclass{u}(const {C} *arg)",
    "{C} *getclassptr{u}()",
    "const {C} &getclassref{u}()",
    "{C} getclasscopy{u}(int flag)",
    "{C} *getclassnew{u}(int flag) +owner(caller)",
    "void passbyvalue{u}({C} arg)",
]
METHODS = [                                                       # classes.yaml / tutorial.yaml
    "int Method1()",
    "void setFlag(int flag)",
    "const std::string& getName()",
    "bool equivalent({C} const &obj2) const",
    "{C} * returnThis()",
    "double scale(double x = 1.0)",
    "static int counter()",
]


def synth_library(rng, idx):
    """Return (yaml text, meta)."""
    lib = rng.choice(LIBS)
    lang = rng.choice(["c++", "c++", "c"])
    u = rng.choice(["", "", "_%d" % rng.randint(1, 3)])
    prefix = rng.choice(PREFIXES)
    lines = list(COPYRIGHT)
    if idx % 3 == 1:
        # copyright text is copied verbatim: braces, percent signs and names of would-be fields included
        lines = ["copyright:", "- Copyright (c) {year} {user}@{host}, %Y-%m-%d, 100%", "- Synthetic library for simulation", "-"]
    lines += ["library: %s" % lib, "cxx_header: %s.hpp" % lib.lower(), "language: %s" % lang]
    if prefix:
        lines += ["format:", "  C_prefix: %s" % prefix]
    opts = {"debug": "True"}
    if rng.random() < 0.6:
        opts["wrap_python"] = "True"
    if rng.random() < 0.35:
        opts["wrap_lua"] = "True"
    if rng.random() < 0.3:
        opts["literalinclude"] = "True"
    if rng.random() < 0.2:
        opts["F_CFI"] = "True"
    if rng.random() < 0.2:
        opts["PY_array_arg"] = rng.choice(["list", "numpy"])
    lines.append("options:")
    for k in sorted(opts):
        lines.append("  %s: %s" % (k, opts[k]))
    lines.append("declarations:")
    feats = []
    structs = []
    classes = []
    if rng.random() < 0.55:
        sname = rng.choice(["Cstruct1", "Pair"])
        structs.append(sname)
        feats.append("struct")
        lines += ["- decl: struct %s {" % sname, "          int ifield;", "          double dfield;",
                  "        };"]
        if opts.get("wrap_python") and rng.random() < 0.5:
            lines += ["  options:", "    PY_struct_arg: %s" % rng.choice(["class", "list"])]
    if lang == "c++":
        if rng.random() < 0.3:
            feats.append("enum")
            lines.append("- decl: enum Color { RED, BLUE = 5, WHITE }")
        if rng.random() < 0.25:
            feats.append("typedef")
            lines += ["- decl: typedef int TypeID", "- decl: TypeID typefunc%s(TypeID arg)" % u]
        ncls = rng.choice([0, 1, 1, 2])
        for cname in rng.sample(CLASSES, ncls):
            classes.append(cname)
            feats.append("class")
            lines.append("- decl: class %s" % cname)
            cif = rng.choice(CPP_IFS)
            if cif:
                lines.append("  cpp_if: %s" % cif)
                feats.append("cpp_if")
            if rng.random() < 0.3:
                lines += ["  options:", "    literalinclude: %s" % rng.choice(["True", "False"])]
            lines.append("  declarations:")
            if rng.random() < 0.85:
                lines.append("  - decl: %s()" % cname)
                if rng.random() < 0.25:
                    # statement.yaml / strings.yaml: C_error_pattern names an entry of "patterns"
                    lines.append("    C_error_pattern: C_check_%s" % rng.choice(["a", "b"]))
                    feats.append("error_pattern")
                if rng.random() < 0.5:
                    lines.append("    format:\n      function_suffix: _default")
                    lines.append("  - decl: %s(int flag)" % cname)
                    lines.append("    format:\n      function_suffix: _flag")
            if rng.random() < 0.8:
                lines.append("  - decl: ~%s() %s" % (cname, rng.choice(["", "+name(delete)"])))
                feats.append("dtor")
            for m in rng.sample(METHODS, rng.randint(1, 4)):
                lines.append("  - decl: " + m.format(C=cname))
        if classes and rng.random() < 0.8:
            for f in rng.sample(CLASS_FUNCS, rng.randint(1, 4)):
                lines.append("- decl: " + f.format(C=rng.choice(classes), u=u))
            feats.append("classfunc")
        if rng.random() < 0.25:
            feats.append("template")
            lines += ["- decl: template<typename T> class vector",
                      "  cxx_header: <vector>", "  cxx_template:",
                      "  - instantiation: <int>", "  - instantiation: <double>",
                      "  declarations:", "  - decl: vector()", "  - decl: ~vector()",
                      "  - decl: void push_back( const T& value+intent(in) )"]
        if rng.random() < 0.25:
            ns = rng.choice(NAMESPACES)
            feats.append("namespace")
            lines += ["- decl: namespace %s" % ns, "  declarations:",
                      "  - decl: void nsfunc%s(int arg)" % u]
            if rng.random() < 0.5:
                cn = rng.choice(CLASSES)
                lines += ["  - decl: class %s" % cn, "    declarations:",
                          "    - decl: %s()" % cn, "    - decl: ~%s()" % cn,
                          "    - decl: int nsmethod()"]
        funcs = rng.sample(FUNCS_CXX, rng.randint(2, 7))
    else:
        funcs = rng.sample(FUNCS_C, rng.randint(2, 5))
    for f in funcs:
        lines.append("- decl: " + f.format(u=u))
    for s in structs:
        for f in rng.sample(STRUCT_FUNCS, rng.randint(1, 4)):
            lines.append("- decl: " + f.format(S=s, u=u))
    if rng.random() < 0.4:
        # types wrapped elsewhere and imported through a typemap section, each with its own header(s)
        feats.append("typemap")
        names = rng.sample(["Vec3", "Quat", "Mat4", "Tensor", "Frame", "Abox"], rng.randint(2, 5))
        tm = ["typemap:"]
        for n in names:
            same = rng.random() < 0.7
            # a header field is a YAML list or one blank-delimited string naming several headers
            extra = rng.random() < 0.4
            ch = "%s.h" % n.lower() + (" %s_io.h %s_aux.h" % (n.lower(), n.lower()) if extra else "")
            xh = n.lower() + (".h" if same else ".hpp") + (" %s_io.h %s_aux.h" % (n.lower(), n.lower()) if extra else "")
            tm += ["- type: %s" % n, "  fields:", "    base: struct", "    c_header: %s" % ch,
                   "    cxx_header: %s" % xh, "    c_type: %s" % n,
                   "    f_derived_type: %s" % n.lower(), "    f_module_name: %s_mod" % n.lower()]
        at = lines.index("declarations:")
        lines[at:at] = tm
        for k in range(rng.randint(1, 3)):
            a, b = rng.choice(names), rng.choice(names)
            lines.append("- decl: void usetm%d%s(%s *a, const %s *b)" % (k, u, a, b))
        if len(names) > 2:
            lines.append("- decl: void usetmall%s(%s)" % (u, ", ".join("%s *p%d" % (n, i) for i, n in enumerate(names))))
    if "error_pattern" in feats:
        lines += ["patterns:", "  C_check_a: |", "    if ({cxx_var} == nullptr) {{",
                  "        return nullptr; // check a of %s" % lib, "    }}",
                  "  C_check_b: |", "    // check b of %s" % lib]
    text = "\n".join(lines) + "\n"
    meta = {"lib": lib, "lang": lang, "features": sorted(set(feats)), "prefix": prefix,
            "classes": classes, "structs": structs}
    return text, meta


def synth_jobs(seeds, n, label="synth"):
    out = []
    for i in range(n):
        rng = seeds.rng(label, i)
        text, meta = synth_library(rng, i)
        fname = IN_DIR + "/%s.yaml" % meta["lib"].lower()
        argv = ["--path", IN_DIR, "--logdir", OUT, "--outdir", OUT] + (
            ["--option", "debug_testsuite=true"] if rng.random() < 0.65 else []) + ["--nowrite-version", fname]
        meta.update(source=label, cwd_free=True, yaml=meta["lib"].lower())
        api = None
        if rng.random() < 0.3:
            # also expressible through create_wrapper
            argv = ["--path", IN_DIR, "--outdir", OUT, fname]
            api = {"filename": fname, "outdir": OUT, "path": [IN_DIR]}
            meta["cwd_free"] = False
        out.append(Job("%s/%d-%s-%s" % (label, i, meta["lib"], "cxx" if meta["lang"] == "c++" else "c"),
                       {fname: text}, argv, [OUT, WORK], api=api, meta=meta))
    return out
