"""Python driver of the C06 world: interprets an op file against the generated extension.

Runs under ASan (libasan preloaded, PYTHONMALLOC=malloc).  The cyclic GC is disabled: *when*
finalisers run is decided by the op sequence (dropping the last reference), not by the
collector.  Faults: a wrongly typed argument / list element (the wrapper leaves through its
fail path) and a failing CPython allocation (_testcapi.set_nomemory).
"""
import array
import ctypes
import gc
import os
import sys

gc.disable()
import simlib  # noqa: E402

hook = ctypes.CDLL(simlib.__file__)
hook.sim_init()
NH = 8
h = [None] * NH
bx = [None] * NH
hi = [None] * NH
hd = [None] * NH
ar = [None] * NH
bg = [None] * NH


QUIET = [False]
hook.sim_wrapper_live.restype = ctypes.c_long


def out(s):
    if not QUIET[0]:
        os.write(1, (s + "\n").encode("latin-1", "replace"))


def res(k, *vals):
    parts = ["RES", str(k)]
    for v in vals:
        if isinstance(v, str):
            parts += [str(len(v)), "[" + v + "]"]
        else:
            parts.append(str(v))
    out(" ".join(parts))


def arr(k, lst):
    if not isinstance(lst, (list, tuple)):
        res(k, "SCALAR", lst)
    else:
        res(k, len(lst), int(sum(lst) * (2 if lst and isinstance(lst[0], float) else 1)))


class Unhashable(object):
    __hash__ = None

    def __int__(self):
        raise ValueError("not convertible")


_memo = {}


def prepared(key, make):
    """Argument objects are built once per (op, arguments) and reused: constructing a list from a
    range grows CPython's own heap a little on every call, which has nothing to do with the
    wrapper under test (calibrated with a shroud-free loop)."""
    if key not in _memo:
        _memo[key] = make()
    TOUCHED.append(_memo[key])
    return _memo[key]


TOUCHED = []


def refsum():
    """Sum of the reference counts of the prepared argument objects of this op and their items."""
    tot = 0
    for o in TOUCHED:
        tot += sys.getrefcount(o)
        if isinstance(o, list):
            for x in o:
                if not isinstance(x, int) or x > 256:
                    tot += sys.getrefcount(x)
    return tot


def seq_of(items, kind):
    """The same numbers as different kinds of sequence: the converters go through PySequence_Fast."""
    import collections
    k = kind % 4
    if k == 1:
        return tuple(items)
    if k == 2:
        return collections.deque(items)
    if k == 3 and items and all(items[i + 1] - items[i] == items[1] - items[0] for i in range(len(items) - 1)) \
            and len(items) > 1:
        return range(items[0], items[-1] + 1, items[1] - items[0])
    return list(items)


def bad_value(kind):
    return {0: None, 1: "text", 2: 3.25, 3: Unhashable(), 4: [1], 5: b"bytes"}[kind % 6]


def do_op(k, name, a, b, text):
    if name.startswith("leak_"):
        # the same call six times in a row: the number of wrapper-phase heap blocks (CPython's own
        # allocations included, PYTHONMALLOC=malloc) must stop growing once caches are warm
        # (raw longs in a preallocated array: keeping the int objects would itself grow the heap)
        counts = array.array("l", [0] * 6)
        refs = array.array("l", [0] * 6)
        inner = name[5:]
        QUIET[0] = True
        try:
            for i in range(6):
                del TOUCHED[:]
                do_op(k, inner, a, b, text)
                counts[i] = hook.sim_wrapper_live()
                refs[i] = refsum()
        finally:
            QUIET[0] = False
            del TOUCHED[:]
        res(k, "GROW", *(list(counts) + ["REFS"] + list(refs)))
        return
    if name == "item_default":
        h[a] = simlib.Item()
        res(k)
    elif name == "item_val":
        h[a] = simlib.Item(b)
        res(k)
    elif name == "item_delete":
        h[a] = None
        res(k)
    elif name == "item_value":
        res(k, h[a].value())
    elif name == "item_set":
        h[a].set(b)
        res(k)
    elif name == "item_label":
        res(k, h[a].label())
    elif name == "item_twin":
        h[b] = h[a].twin()
        res(k)
    elif name == "make_item":
        h[a] = simlib.makeItem(b)
        res(k)
    elif name == "borrow_item":
        h[a] = simlib.borrowItem()
        res(k)
    elif name == "default_item":
        h[a] = simlib.defaultItem()
        res(k)
    elif name == "use_item":
        res(k, simlib.useItem(h[a]))
    elif name == "sum_items":
        res(k, simlib.sumItems(h[a], h[b]))
    elif name == "assign":
        h[b] = h[a]
        res(k)
    elif name == "make_box":
        bx[a] = simlib.makeBox(b)
        res(k)
    elif name == "box_new":
        bx[a] = simlib.Box(b)
        res(k)
    elif name == "box_value":
        res(k, bx[a].value())
    elif name == "box_delete":
        bx[a] = None
        res(k)
    elif name == "hi_new":
        hi[a] = simlib.Holder_int(b)
        res(k)
    elif name == "hd_new":
        hd[a] = simlib.Holder_double(b)
        res(k)
    elif name == "hi_get":
        res(k, hi[a].get())
    elif name == "hd_get":
        res(k, int(hd[a].get()))
    elif name == "hi_put":
        hi[a].put(b)
        res(k)
    elif name == "hd_put":
        hd[a].put(float(b))
        res(k)
    elif name == "hi_delete":
        hi[a] = None
        res(k)
    elif name == "hd_delete":
        hd[a] = None
        res(k)
    elif name == "arr_weights":
        arr(k, simlib.arrWeights(prepared(("aw", a), lambda: [i + 1 for i in range(a)]),
                                 prepared(("aw2", b), lambda: [2 + j for j in range(b)])))
    elif name == "bad_char_arr":
        def mkb():
            out_ = ["w" * (i % 4) + "" for i in range(a + 1)]
            out_[1 + b % a] = bad_value(1 + b % 5) if (1 + b % 5) != 1 else 17  # never a str / None
            return out_
        lst = prepared(("bca", a, b), mkb)
        try:
            simlib.charArrLen(lst, len(lst))
            res(k, "NOERROR")
        except BaseException as e:
            res(k, "EXC", type(e).__name__)
    elif name == "bad_arr_weights":
        def mkw():
            lst = [2 + j for j in range(1 + b % 3)]
            lst[b % len(lst)] = bad_value(b)
            return lst
        try:
            simlib.arrWeights(prepared(("aw", a), lambda: [i + 1 for i in range(a)]), prepared(("baw", b), mkw))
            res(k, "NOERROR")
        except BaseException as e:
            res(k, "EXC", type(e).__name__)
    elif name == "char_arr_none":
        def mkn():
            out_ = []
            for i in range(1, a + 1):
                s = "w" * ((i - 1) % (b + 1))
                out_.append(None if (i + b) % 3 == 0 else s + "")
            return out_
        lst = prepared(("can", a, b), mkn)
        res(k, simlib.charArrLen(lst, len(lst)))
    elif name == "bag_new":
        bg[a] = simlib.Bag(prepared(("bagv", b), lambda: [i for i in range(1, b + 1)]))
        res(k)
    elif name == "bag_total":
        res(k, bg[a].total())
    elif name == "bag_delete":
        bg[a] = None
        res(k)
    elif name == "bag_tmp":
        t = simlib.Bag(prepared(("bagv", a), lambda: [i for i in range(1, a + 1)]))
        res(k, t.total())
        del t
    elif name == "bad_bag_new":
        def mkbb():
            lst = [i for i in range(1, a + 1)]
            lst[b % len(lst)] = bad_value(1 + b % 5)
            return lst
        try:
            simlib.Bag(prepared(("bbag", a, b), mkbb))
            res(k, "NOERROR")
        except BaseException as e:
            res(k, "EXC", type(e).__name__)
    elif name == "rec_sum":
        # one instance for the whole run (instances are never released, see the recorded finding):
        # members set through the setters, lists longer and shorter than the arrays
        r = prepared(("rec",), lambda: simlib.Rec())
        r.count = prepared(("rc0",), lambda: [0, 0, 0])
        r.w = prepared(("rw0",), lambda: [0.0, 0.0])
        r.count = prepared(("rc", a), lambda: [1 + i for i in range(a)])
        r.w = prepared(("rw", a), lambda: [0.5 * (1 + i) for i in range(a)])
        r.tail = b
        r.after = 7.0
        res(k, simlib.recSum(r))
        del r
    elif name == "pt_sum":
        res(k, simlib.ptSum(prepared(("pt", a), lambda: simlib.Pt(a, a + 0.5))))
    elif name == "pt_tmp":
        res(k, simlib.ptSum(simlib.Pt(a, a + 0.5)))  # an instance that lives for one call only
    elif name == "pt_out":
        q = simlib.ptOut(a)
        res(k, q.x, int(q.y * 2))
    elif name == "pt_scale":
        # the same instance every time (fields reset through the setters): nothing is created here
        q = prepared(("ptq", a), lambda: simlib.Pt(a, a + 0.5))
        q.x = a
        q.y = a + 0.5
        r = simlib.ptScale(q, b)
        del r
        res(k, q.x, int(q.y * 2))
        del q
    elif name == "ar_new":
        ar[a] = simlib.Arr(b, prepared(("arv", b), lambda: [7 * i for i in range(b)]), prepared(("arn", b), lambda: "nm%d" % b))
        res(k)
    elif name == "ar_tmp":
        t = simlib.Arr(a, prepared(("arv", a), lambda: [7 * i for i in range(a)]), prepared(("arn", a), lambda: "nm%d" % a))
        res(k, simlib.arrTotal(t))
        del t
    elif name == "ar_set_vals":
        ar[a].vals = prepared(("ars", b), lambda: [3 + i for i in range(b)])
        ar[a].n = b
        res(k)
    elif name == "ar_set_name":
        ar[a].name = prepared(("t", text), lambda: text)
        res(k)
    elif name == "ar_bad_name":
        try:
            ar[a].name = prepared(("bn",), lambda: 1234567)
            res(k, "NOERROR")
        except BaseException as e:
            res(k, "EXC", type(e).__name__)
    elif name == "ar_bad_vals":
        try:
            ar[a].vals = prepared(("bvl", b), lambda: [1, bad_value(1 + b % 5), 3])
            res(k, "NOERROR")
        except BaseException as e:
            res(k, "EXC", type(e).__name__)
    elif name == "char_arr_two":
        la = prepared(("c2a", a, b), lambda: ["w" * ((i - 1) % (b + 1)) + "" for i in range(1, a + 1)])
        lb = prepared(("c2b", a, b), lambda: ["w" * ((i - 1) % (b + 1)) + "" for i in range(1, a)])
        res(k, simlib.charArrTwo(la, len(la), lb, len(lb)))
    elif name == "bad_char_arr_two":
        la = prepared(("c2a", a, b), lambda: ["w" * ((i - 1) % (b + 1)) + "" for i in range(1, a + 1)])
        lb = prepared(("c2x", a, b), lambda: ["q", 17 + b, "r"])
        try:
            simlib.charArrTwo(la, len(la), lb, len(lb))
            res(k, "NOERROR")
        except BaseException as e:
            res(k, "EXC", type(e).__name__)
    elif name == "arr_in_out":
        arr(k, simlib.arrInOut(prepared(("aio", a), lambda: [i for i in range(1, a + 1)]), b))
    elif name == "bad_arr_in_out":
        try:
            simlib.arrInOut(prepared(("aio", a), lambda: [i for i in range(1, a + 1)]), -1)
            res(k, "NOERROR")
        except BaseException as e:
            res(k, "EXC", type(e).__name__)
    elif name == "ar_total":
        res(k, simlib.arrTotal(ar[a]))
    elif name == "ar_get_vals":
        v = ar[a].vals
        res(k, "NONE" if v is None else len(v))
        del v
    elif name == "ar_get_name":
        v = ar[a].name
        res(k, "NONE" if v is None else v)
        del v
    elif name == "ar_drop":
        ar[a] = None
        res(k)
    elif name == "str_ref":
        res(k, simlib.strRef())
    elif name == "str_val2":
        res(k, simlib.strVal2(a))
    elif name == "str_val3":
        res(k, simlib.strVal3(a))
    elif name == "str_val":
        res(k, simlib.strVal(a))
    elif name == "str_owned":
        res(k, simlib.strOwned(a))
    elif name == "str_lib":
        res(k, simlib.strLib())
    elif name == "str_in":
        res(k, simlib.strIn(prepared(("t", text), lambda: text)))
    elif name == "str_out":
        res(k, simlib.strOut(b))
    elif name == "str_inout":
        res(k, simlib.strInout(prepared(("t", text), lambda: text)))
    elif name == "char_out":
        res(k, simlib.charOut(prepared(("t", text), lambda: text)))
    elif name == "char_ret":
        res(k, simlib.charRet(a))
    elif name == "char_inout":
        res(k, simlib.charInout(text))
    elif name == "vec_sum":
        res(k, simlib.vecSum(prepared(("vs", a, b), lambda: seq_of([i for i in range(1, a + 1)], b))))
    elif name == "vec_iota":
        arr(k, simlib.vecIota())
    elif name == "vec_alloc":
        arr(k, simlib.vecAlloc(a))
    elif name == "vec_ret":
        arr(k, simlib.vecRet(a))
    elif name == "arr_new":
        arr(k, simlib.arrNew(a))
    elif name == "arr_lib":
        arr(k, simlib.arrLib())
    elif name == "arr_new_alloc":
        arr(k, simlib.arrNewAlloc(a))
    elif name == "arr_pat":
        arr(k, simlib.arrNewPat(a))
    elif name == "arr_sum":
        res(k, simlib.arrSum(prepared(("as", a, b), lambda: seq_of([3 * i for i in range(1, a + 1)], b))))
    elif name == "char_grow":
        res(k, simlib.charGrow(text))
    elif name == "char_arr":
        # items of different kinds: str, bytes, bytearray (the converter treats them differently)
        def mk3():
            out_ = []
            for i in range(1, a + 1):
                s = "w" * ((i - 1) % (b + 1))
                out_.append([s + "", s.encode("ascii") + b"", bytearray(s.encode("ascii"))][(i + b) % 3])
            return out_
        lst = prepared(("ca", a, b), mk3)
        res(k, simlib.charArrLen(lst, len(lst)))
    elif name == "str_ptr_in":
        res(k, simlib.strPtrIn(prepared(("t", text), lambda: text)))
    elif name == "str_val_in":
        res(k, simlib.strValIn(prepared(("t", text), lambda: text)))
    elif name == "char_ret_len":
        res(k, simlib.charRetLen(a))
    elif name == "char_ret_null":
        v = simlib.charRetNull(a)
        res(k, "NONE" if v is None else v)
    elif name == "item_add_all":
        res(k, h[a].addAll(prepared(("iaa", b), lambda: [i for i in range(1, b + 1)])))
    elif name == "bad_item_add_all":
        try:
            h[a].addAll(prepared(("biaa", b), lambda: [1, bad_value(1 + b % 5), 3]))
            res(k, "NOERROR")
        except BaseException as e:
            res(k, "EXC", type(e).__name__)
    elif name == "arr_sum_d":
        res(k, simlib.arrSumD(prepared(("asd", a), lambda: [0.5 * i for i in range(1, a + 1)])))
    elif name == "bad_arr_sum_d":
        def mkd():
            lst = [0.5 * i for i in range(1, a + 1)]
            lst[b % len(lst)] = bad_value([0, 1, 3, 4, 5][b % 5])
            return lst
        try:
            simlib.arrSumD(prepared(("basd", a, b), mkd))
            res(k, "NOERROR")
        except BaseException as e:
            res(k, "EXC", type(e).__name__)
    elif name == "item_combine":
        res(k, h[a].combine(h[b]))
    elif name == "vec_dot":
        res(k, simlib.vecDot(prepared(("vd", a), lambda: [i for i in range(1, a + 1)]),
                             prepared(("vd2", b), lambda: [2 * i for i in range(1, b + 1)])))
    elif name == "str_ptr_out":
        res(k, simlib.strPtrOut(b))
    elif name == "arr_fill_out":
        arr(k, simlib.arrFillOut(a))
    elif name == "ref_item":
        h[a] = simlib.refItem()
        res(k)
    elif name == "vec_ret_d":
        lst = simlib.vecRetD(a)
        res(k, len(lst), int(sum(lst) * 4))
    elif name == "bad_arr_sum":
        def mk2():
            lst = [3 * i for i in range(1, a + 1)]
            if lst:
                lst[b % len(lst)] = bad_value(b)
            else:
                lst = bad_value(b)
            return lst
        lst = prepared(("bas", a, b), mk2)
        try:
            simlib.arrSum(lst)
            res(k, "NOERROR")
        except BaseException as e:
            res(k, "EXC", type(e).__name__)
    # ---- faults: the wrapper must leave through its error path without leaking or crashing
    elif name == "bad_vec_sum":
        def mk():
            lst = [i for i in range(1, a + 1)]
            if lst:
                lst[b % len(lst)] = bad_value(b)
            else:
                lst = bad_value(b)
            return lst
        lst = prepared(("bvs", a, b), mk)
        try:
            simlib.vecSum(lst)
            res(k, "NOERROR")
        except BaseException as e:
            res(k, "EXC", type(e).__name__)
    elif name == "bad_arg":
        calls = [lambda v: simlib.makeItem(v), lambda v: simlib.useItem(v), lambda v: simlib.strIn(v),
                 lambda v: simlib.sumItems(v, v), lambda v: simlib.Item(v), lambda v: simlib.strVal(v),
                 lambda v: simlib.vecAlloc(v), lambda v: simlib.arrNew(v), lambda v: simlib.strInout(v),
                 lambda v: simlib.charOut(v), lambda v: simlib.vecRet(v), lambda v: simlib.strOwned(v)]
        try:
            calls[a % len(calls)](prepared(("bv", b), lambda: bad_value(b)))
            res(k, "NOERROR")
        except BaseException as e:
            res(k, "EXC", type(e).__name__)
    elif name == "nomem":
        # the b-th CPython allocation inside the call fails
        import _testcapi
        calls = [lambda: simlib.strVal(20), lambda: simlib.vecRet(6), lambda: simlib.arrNew(5),
                 lambda: simlib.makeItem(9000 + k), lambda: simlib.vecSum([1, 2, 3, 4]),
                 lambda: simlib.strOwned(30), lambda: simlib.vecAlloc(4), lambda: simlib.strInout("abc"),
                 lambda: simlib.Item(9100 + k), lambda: simlib.arrNewAlloc(4), lambda: simlib.vecIota(),
                 lambda: simlib.arrSum([1, 2, 3, 4, 5]), lambda: simlib.arrSum([7]), lambda: simlib.arrNewPat(4)]
        fn = calls[a % len(calls)]
        r = None
        try:
            _testcapi.set_nomemory(b, b + 1)
            try:
                r = fn()
            finally:
                _testcapi.remove_mem_hooks()
            res(k, "NOERROR")
        except MemoryError:
            res(k, "EXC", "MemoryError")
        except BaseException as e:
            res(k, "EXC", type(e).__name__)
        del r
    else:
        res(k, "UNKNOWN-OP", name)


def h_any():
    for x in h:
        if x is not None:
            return x
    return simlib.borrowItem()


def main():
    k = 0
    with open(sys.argv[1]) as fp:
        lines = fp.read().split("\n")
    for line in lines:
        if not line.strip():
            continue
        text = ""
        if "|" in line:
            line, text = line.split("|", 1)
        f = line.split()
        name = f[0]
        a = int(f[1]) if len(f) > 1 else 0
        b = int(f[2]) if len(f) > 2 else 0
        hook.sim_op_begin(k)
        hook.sim_phase(1)
        try:
            do_op(k, name, a, b, text)
        except BaseException as e:  # an unexpected exception is reported, not fatal
            out("RES %d UNEXPECTED %s %s" % (k, type(e).__name__, str(e)[:80].replace("\n", " ")))
        hook.sim_phase(0)
        hook.sim_op_end(k)
        k += 1
    hook.sim_final()
    os._exit(0)


main()
