! Fortran driver of the C06 world: interprets an op file against the generated module.
! Each op:  sim_op_begin(k); phase(1); <wrapper calls>; phase(0); <release what was handed
! to this caller by value>; print RES line; sim_op_end(k)
module drv_hook
  use iso_c_binding
  interface
     subroutine sim_init() bind(C, name="sim_init")
     end subroutine sim_init
     subroutine sim_phase(p) bind(C, name="sim_phase")
       import :: C_INT
       integer(C_INT), value :: p
     end subroutine sim_phase
     subroutine sim_op_begin(k) bind(C, name="sim_op_begin")
       import :: C_INT
       integer(C_INT), value :: k
     end subroutine sim_op_begin
     subroutine sim_op_end(k) bind(C, name="sim_op_end")
       import :: C_INT
       integer(C_INT), value :: k
     end subroutine sim_op_end
     subroutine sim_final() bind(C, name="sim_final")
     end subroutine sim_final
  end interface
end module drv_hook

program drv_f
  use iso_c_binding
#ifdef SIMC
  use simc_mod
#else
  use simlib_mod
#ifdef HAVE_deep
  use simlib_deep_mod, only : vec_ret_l
#endif
#endif
  use drv_hook
  implicit none
  integer, parameter :: NH = 8, NC = 4
#ifndef SIMC
#ifdef HAVE_Item
  type(item) :: h(0:NH-1)
#endif
#ifdef HAVE_Box
  type(box) :: bx(0:NH-1)
#endif
#ifdef HAVE_Bag
  type(bag) :: bg(0:NH-1)
#endif
#ifdef HAVE_Pt
  type(pt) :: ptv
#endif
#ifdef HAVE_Holder
  type(holder_int) :: hi(0:NH-1)
  type(holder_double) :: hd(0:NH-1)
#endif
#else
  type(pair) :: pr
  type(pair), pointer :: prp
#endif
#ifdef HAVE_FCAPSULE
  type(SIM_SHROUD_capsule) :: caps(0:NC-1)
#endif
  integer(C_INT), pointer :: ip(:)
  character(len=256) :: fname, line, text
  character(len=24) :: op
  integer :: ios, k, a, b, c, bar, u
  integer(C_INT) :: r
  character(len=:), allocatable :: s
  character(len=30) :: fixed30
  integer(C_INT), allocatable :: iv(:), wv(:)
  integer(C_INT), allocatable :: sq(:)
  real(C_DOUBLE), allocatable :: dv(:)

  call get_command_argument(1, fname)
  call sim_init()
  open(newunit=u, file=trim(fname), status="old", action="read")
  k = 0
  do
     read(u, '(A)', iostat=ios) line
     if (ios /= 0) exit
     if (len_trim(line) == 0) cycle
     a = 0; b = 0; c = 0; text = ""
     bar = index(line, "|")
     if (bar > 0) then
        text = line(bar+1:)
        line = line(:bar-1)
     end if
     read(line, *, iostat=ios) op, a, b, c
     if (ios /= 0) then
        read(line, *, iostat=ios) op, a, b
        if (ios /= 0) then
           read(line, *, iostat=ios) op, a
           if (ios /= 0) read(line, *, iostat=ios) op
        end if
     end if
     call sim_op_begin(k)
     call do_op()
     flush(6)
     call sim_op_end(k)
     k = k + 1
  end do
  close(u)
  call sim_final()

contains

  subroutine res_int(v)
    integer, intent(in) :: v
    write(6, '(A,I0,A,I0)') "RES ", k, " ", v
  end subroutine res_int

  subroutine res_str(t)
    character(len=*), intent(in) :: t
    write(6, '(A,I0,A,I0,A,A,A)') "RES ", k, " ", len(t), " [", t, "]"
  end subroutine res_str

  subroutine res_none()
    write(6, '(A,I0)') "RES ", k
  end subroutine res_none

  subroutine res_arr(n, sm)
    integer, intent(in) :: n, sm
    write(6, '(A,I0,A,I0,A,I0)') "RES ", k, " ", n, " ", sm
  end subroutine res_arr

#ifdef OP_cap_scope
  subroutine scoped_capsule(n)
    ! a capsule that is a local variable: finalised at scope exit
    integer, intent(in) :: n
    type(SIM_SHROUD_capsule) :: cap
    integer(C_INT), pointer :: p(:)
    integer :: sz, sm
    call sim_phase(1)
    p => arr_new(int(n, C_INT), cap)
    call sim_phase(0)
    sz = size(p)
    sm = 0
    if (sz > 0) sm = sum(p)
    call res_arr(sz, sm)
    call sim_phase(1)   ! the finaliser that runs at "end subroutine" is wrapper code
  end subroutine scoped_capsule
#endif

  subroutine do_op()
    integer :: i, sz, sm, cap
    character(len=:), allocatable :: buf
    character(len=:), allocatable :: names(:)
    select case (trim(op))
#ifndef SIMC
    case ("item_default")
       call sim_phase(1); h(a) = item(); call sim_phase(0); call res_none()
#endif
#ifndef SIMC
    case ("item_val")
       call sim_phase(1); h(a) = item(int(b, C_INT)); call sim_phase(0); call res_none()
#endif
#ifndef SIMC
    case ("item_delete")
       call sim_phase(1); call h(a)%delete(); call sim_phase(0); call res_none()
#endif
#ifndef SIMC
    case ("item_value")
       call sim_phase(1); r = h(a)%value(); call sim_phase(0); call res_int(int(r))
#endif
#ifndef SIMC
    case ("item_set")
       call sim_phase(1); call h(a)%set(int(b, C_INT)); call sim_phase(0); call res_none()
#endif
#ifndef SIMC
    case ("item_label")
       call sim_phase(1); s = h(a)%label(); call sim_phase(0); call res_str(s); deallocate(s)
#endif
#ifndef SIMC
    case ("item_twin")
       call sim_phase(1); h(b) = h(a)%twin(); call sim_phase(0); call res_none()
#endif
#ifndef SIMC
    case ("make_item")
       call sim_phase(1); h(a) = make_item(int(b, C_INT)); call sim_phase(0); call res_none()
#endif
#ifndef SIMC
    case ("borrow_item")
       call sim_phase(1); h(a) = borrow_item(); call sim_phase(0); call res_none()
#endif
#ifndef SIMC
    case ("default_item")
       call sim_phase(1); h(a) = default_item(); call sim_phase(0); call res_none()
#endif
#ifndef SIMC
    case ("copy_item")
       call sim_phase(1); h(a) = copy_item(int(b, C_INT)); call sim_phase(0); call res_none()
#endif
#ifndef SIMC
    case ("use_item")
       call sim_phase(1); r = use_item(h(a)); call sim_phase(0); call res_int(int(r))
#endif
#ifndef SIMC
    case ("sum_items")
       call sim_phase(1); r = sum_items(h(a), h(b)); call sim_phase(0); call res_int(int(r))
#endif
#ifndef SIMC
    case ("assign")
       h(b) = h(a); call res_none()
#endif
#ifndef SIMC
    case ("hi_new")
       call sim_phase(1); hi(a) = holder_int(int(b, C_INT)); call sim_phase(0); call res_none()
    case ("hd_new")
       call sim_phase(1); hd(a) = holder_double(int(b, C_INT)); call sim_phase(0); call res_none()
    case ("hi_get")
       call sim_phase(1); r = hi(a)%get(); call sim_phase(0); call res_int(int(r))
    case ("hd_get")
       call sim_phase(1); r = int(hd(a)%get(), C_INT); call sim_phase(0); call res_int(int(r))
    case ("hi_put")
       call sim_phase(1); call hi(a)%put(int(b, C_INT)); call sim_phase(0); call res_none()
    case ("hd_put")
       call sim_phase(1); call hd(a)%put(real(b, C_DOUBLE)); call sim_phase(0); call res_none()
    case ("hi_delete")
       call sim_phase(1); call hi(a)%delete(); call sim_phase(0); call res_none()
    case ("hd_delete")
       call sim_phase(1); call hd(a)%delete(); call sim_phase(0); call res_none()
    case ("arr_weights")
       allocate(iv(a)); allocate(wv(b))
       do i = 1, a
          iv(i) = i
       end do
       do i = 1, b
          wv(i) = 1 + i
       end do
       call sim_phase(1); call arr_weights(iv, wv); call sim_phase(0)
       sm = 0
       if (a > 0) sm = sum(iv)
       call res_arr(a, sm); deallocate(iv); deallocate(wv)
#endif
#ifndef SIMC
    case ("pt_sum")
       ptv%x = a; ptv%y = a + 0.5d0
       call sim_phase(1); r = pt_sum(ptv); call sim_phase(0); call res_int(int(r))
    case ("pt_out")
       ptv%x = -1; ptv%y = -1
       call sim_phase(1); call pt_out(ptv, int(a, C_INT)); call sim_phase(0); call res_arr(int(ptv%x), int(ptv%y * 2))
    case ("pt_scale")
       ptv%x = a; ptv%y = a + 0.5d0
       call sim_phase(1); call pt_scale(ptv, int(b, C_INT)); call sim_phase(0); call res_arr(int(ptv%x), int(ptv%y * 2))
#endif
#ifndef SIMC
    case ("bag_new")
       allocate(iv(b)); do i = 1, b; iv(i) = i; end do
       call sim_phase(1); bg(a) = bag(iv); call sim_phase(0); call res_none(); deallocate(iv)
    case ("bag_total")
       call sim_phase(1); r = bg(a)%total(); call sim_phase(0); call res_int(int(r))
    case ("bag_delete")
       call sim_phase(1); call bg(a)%delete(); call sim_phase(0); call res_none()
#endif
#ifndef SIMC
    case ("make_box")
       call sim_phase(1); bx(a) = make_box(int(b, C_INT)); call sim_phase(0); call res_none()
#endif
#ifndef SIMC
    case ("box_new")
       call sim_phase(1); bx(a) = box(int(b, C_INT)); call sim_phase(0); call res_none()
#endif
#ifndef SIMC
    case ("box_value")
       call sim_phase(1); r = bx(a)%value(); call sim_phase(0); call res_int(int(r))
#endif
#ifndef SIMC
    case ("str_ref")
       call sim_phase(1); s = str_ref(); call sim_phase(0); call res_str(s); deallocate(s)
#endif
#ifndef SIMC
    case ("str_val")
       call sim_phase(1); s = str_val(int(a, C_INT)); call sim_phase(0); call res_str(s); deallocate(s)
    case ("str_val2")
       call sim_phase(1); s = str_val2(int(a, C_INT)); call sim_phase(0); call res_str(s); deallocate(s)
    case ("str_val3")
       call sim_phase(1); s = str_val3(int(a, C_INT)); call sim_phase(0); call res_str(s); deallocate(s)
#endif
#ifndef SIMC
    case ("str_owned")
       call sim_phase(1); s = str_owned(int(a, C_INT)); call sim_phase(0); call res_str(s); deallocate(s)
#endif
#ifndef SIMC
    case ("str_final")
       call sim_phase(1); fixed30 = str_final(int(a, C_INT)); call sim_phase(0); call res_str(fixed30)
#endif
#ifndef SIMC
    case ("str_lib")
       call sim_phase(1); s = str_lib(); call sim_phase(0); call res_str(s); deallocate(s)
#endif
#ifndef SIMC
    case ("str_in")
       ! a = length of the actual argument (may exceed the text: trailing blanks)
       allocate(character(len=a) :: buf); buf = text(1:min(a, len(text)))
       call sim_phase(1); r = str_in(buf); call sim_phase(0); call res_int(int(r)); deallocate(buf)
#endif
#ifndef SIMC
    case ("str_count_char")
       ! a string argument followed by a scalar char; the actual argument is an exact-fit heap block
       allocate(character(len=a) :: buf); buf = text(1:min(a, len(text)))
       call sim_phase(1); r = str_count_char(buf, "o"); call sim_phase(0); call res_int(int(r)); deallocate(buf)
#endif
#ifndef SIMC
    case ("arr_squares")
       ! the same allocatable variable is handed to an intent(out) allocatable argument twice in a row (the second call needs another size)
       call sim_phase(1); call arr_squares(2_C_INT, sq); call arr_squares(int(a, C_INT), sq); call sim_phase(0)
       sz = size(sq); sm = 0; if (sz > 0) sm = sum(sq)
       call res_arr(sz, sm); deallocate(sq)
#endif
#ifndef SIMC
    case ("str_out")
       allocate(character(len=a) :: buf); buf = repeat("#", a)
       call sim_phase(1); call str_out(buf, int(b, C_INT)); call sim_phase(0); call res_str(buf); deallocate(buf)
#endif
#ifndef SIMC
    case ("str_inout")
       allocate(character(len=a) :: buf); buf = text(1:min(a, len(text)))
       call sim_phase(1); call str_inout(buf); call sim_phase(0); call res_str(buf); deallocate(buf)
#endif
    case ("char_out")
       allocate(character(len=a) :: buf); buf = repeat("#", a)
       call sim_phase(1); call char_out(buf, trim(text)); call sim_phase(0); call res_str(buf); deallocate(buf)
    case ("char_ret")
       call sim_phase(1); s = char_ret(int(a, C_INT)); call sim_phase(0); call res_str(s); deallocate(s)
    case ("char_inout")
       allocate(character(len=a) :: buf); buf = text(1:min(a, len(text)))
       call sim_phase(1); call char_inout(buf); call sim_phase(0); call res_str(buf); deallocate(buf)
#ifndef SIMC
    case ("vec_sum")
       allocate(iv(a)); do i = 1, a; iv(i) = i; end do
       call sim_phase(1); r = vec_sum(iv); call sim_phase(0); call res_int(int(r)); deallocate(iv)
#endif
#ifndef SIMC
    case ("vec_iota")
       allocate(iv(a)); iv = -7
       call sim_phase(1); call vec_iota(iv); call sim_phase(0)
       sm = 0; if (a > 0) sm = sum(iv)
       call res_arr(size(iv), sm); deallocate(iv)
#endif
#ifndef SIMC
    case ("vec_inc")
       allocate(iv(a)); do i = 1, a; iv(i) = 10 * i; end do
       call sim_phase(1); call vec_inc(iv); call sim_phase(0)
       sm = 0; if (a > 0) sm = sum(iv)
       call res_arr(size(iv), sm); deallocate(iv)
#endif
#ifndef SIMC
    case ("vec_alloc")
       call sim_phase(1); call vec_alloc(iv, int(a, C_INT)); call sim_phase(0)
       sm = 0; if (size(iv) > 0) sm = sum(iv)
       call res_arr(size(iv), sm); deallocate(iv)
#endif
#ifndef SIMC
    case ("vec_ret")
       call sim_phase(1); iv = vec_ret(int(a, C_INT)); call sim_phase(0)
       sm = 0; if (size(iv) > 0) sm = sum(iv)
       call res_arr(size(iv), sm); deallocate(iv)
#endif
#ifndef SIMC
    case ("vec_str_count")
       allocate(character(len=b) :: names(a))
       do i = 1, a
          names(i) = repeat("q", mod(i - 1, b + 1))
       end do
       call sim_phase(1); r = vec_str_count(names); call sim_phase(0); call res_int(int(r)); deallocate(names)
#endif
#ifndef SIMC
    case ("arr_new")
       call sim_phase(1); ip => arr_new(int(a, C_INT), caps(b)); call sim_phase(0)
       sz = size(ip); sm = 0; if (sz > 0) sm = sum(ip)
       call res_arr(sz, sm); nullify(ip)
#endif
    case ("arr_lib")
       call sim_phase(1); ip => arr_lib(); call sim_phase(0)
       sz = size(ip); sm = 0; if (sz > 0) sm = sum(ip)
       call res_arr(sz, sm); nullify(ip)
#ifndef SIMC
    case ("arr_new_alloc")
       call sim_phase(1); dv = arr_new_alloc(int(a, C_INT)); call sim_phase(0)
       sz = size(dv); sm = 0; if (sz > 0) sm = int(sum(dv) * 2)
       call res_arr(sz, sm); deallocate(dv)
#endif
#ifndef SIMC
    case ("arr_pat")
       call sim_phase(1); ip => arr_new_pat(int(a, C_INT), caps(b)); call sim_phase(0)
       sz = size(ip); sm = 0; if (sz > 0) sm = sum(ip)
       call res_arr(sz, sm); nullify(ip)
#endif
#ifndef SIMC
    case ("arr_pp")
       call sim_phase(1); call arr_fill_ptr(ip, int(a, C_INT)); call sim_phase(0)
       sz = size(ip); sm = 0; if (sz > 0) sm = sum(ip)
       call res_arr(sz, sm); nullify(ip)
#endif
#ifndef SIMC
    case ("arr_gref")
       call sim_phase(1); call arr_grab_ref(ip, int(a, C_INT)); call sim_phase(0)
       sz = size(ip); sm = 0; if (sz > 0) sm = sum(ip)
       call res_arr(sz, sm); nullify(ip)
#endif
    case ("arr_sum")
       allocate(iv(a)); do i = 1, a; iv(i) = 3 * i; end do
       call sim_phase(1); r = arr_sum(iv); call sim_phase(0); call res_int(int(r)); deallocate(iv)
    case ("char_grow")
       allocate(character(len=a) :: buf); buf = text(1:min(a, len(text)))
       call sim_phase(1); call char_grow(buf); call sim_phase(0); call res_str(buf); deallocate(buf)
    case ("char_arr")
       allocate(character(len=b) :: names(a))
       do i = 1, a
          names(i) = repeat("w", mod(i - 1, b + 1))
       end do
       call sim_phase(1); r = char_arr_len(names, int(a, C_INT)); call sim_phase(0); call res_int(int(r)); deallocate(names)
#ifndef SIMC
    case ("str_ptr_in")
       allocate(character(len=a) :: buf); buf = text(1:min(a, len(text)))
       call sim_phase(1); r = str_ptr_in(buf); call sim_phase(0); call res_int(int(r)); deallocate(buf)
#endif
#ifndef SIMC
    case ("str_val_in")
       allocate(character(len=a) :: buf); buf = text(1:min(a, len(text)))
       call sim_phase(1); r = str_val_in(buf); call sim_phase(0); call res_int(int(r)); deallocate(buf)
#endif
    case ("char_ret_len")
       call sim_phase(1); s = char_ret_len(int(a, C_INT)); call sim_phase(0); call res_str(s); deallocate(s)
#ifndef SIMC
    case ("char_ret_null")
       call sim_phase(1); s = char_ret_null(int(a, C_INT)); call sim_phase(0); call res_str(s); deallocate(s)
#endif
#ifndef SIMC
    case ("vec_iota_d")
       allocate(dv(a)); dv = -7.0d0
       call sim_phase(1); call vec_iota_d(dv); call sim_phase(0)
       sm = 0; if (a > 0) sm = int(sum(dv) * 2)
       call res_arr(size(dv), sm); deallocate(dv)
#endif
#ifndef SIMC
    case ("arr_fill_out")
       allocate(dv(a + 1)); dv = -1.0d0
       call sim_phase(1); call arr_fill_out(int(a, C_INT), dv); call sim_phase(0)
       call res_arr(size(dv), int(sum(dv) * 2)); deallocate(dv)
#endif
#ifndef SIMC
    case ("vec_ret_l")
       block
         integer(C_LONG), allocatable :: lv(:)
         call sim_phase(1); lv = vec_ret_l(int(a, C_INT)); call sim_phase(0)
         sz = size(lv); sm = 0; if (sz > 0) sm = int(sum(lv))
         call res_arr(sz, sm); deallocate(lv)
       end block
#endif
#ifndef SIMC
    case ("vec_inout_alloc")
       allocate(iv(a)); do i = 1, a; iv(i) = i; end do
       call sim_phase(1); call vec_inout_alloc(iv); call sim_phase(0)
       sm = 0; if (size(iv) > 0) sm = sum(iv)
       call res_arr(size(iv), sm); deallocate(iv)
#endif
#ifndef SIMC
    case ("str_ptr_out")
       allocate(character(len=a) :: buf); buf = repeat("#", a)
       call sim_phase(1); call str_ptr_out(buf, int(b, C_INT)); call sim_phase(0); call res_str(buf); deallocate(buf)
#endif
#ifndef SIMC
    case ("item_combine")
       call sim_phase(1); r = h(a)%combine(h(b)); call sim_phase(0); call res_int(int(r))
    case ("item_add_all")
       allocate(iv(b)); do i = 1, b; iv(i) = i; end do
       call sim_phase(1); r = h(a)%add_all(iv); call sim_phase(0); call res_int(int(r)); deallocate(iv)
    case ("item_rebind")
       call sim_phase(1); call h(b)%set_instance(h(a)%get_instance()); call sim_phase(0); call res_none()
    case ("item_assoc")
       call sim_phase(1); sm = merge(1, 0, h(a)%associated()); call sim_phase(0); call res_int(sm)
    case ("arr_sum_d")
       allocate(dv(a)); do i = 1, a; dv(i) = 0.5d0 * i; end do
       call sim_phase(1); r = arr_sum_d(dv); call sim_phase(0); call res_int(int(r)); deallocate(dv)
#endif
#ifndef SIMC
    case ("pass_item")
       call sim_phase(1); r = pass_item(h(a)); call sim_phase(0); call res_int(int(r))
#endif
#ifndef SIMC
    case ("vec_dot")
       block
         integer(C_INT), allocatable :: va(:), vb(:)
         allocate(va(a), vb(b))
         do i = 1, a; va(i) = i; end do
         do i = 1, b; vb(i) = 2 * i; end do
         call sim_phase(1); r = vec_dot(va, vb); call sim_phase(0); call res_int(int(r))
         deallocate(va, vb)
       end block
#endif
#ifndef SIMC
    case ("ref_item")
       call sim_phase(1); h(a) = ref_item(); call sim_phase(0); call res_none()
#endif
#ifndef SIMC
    case ("vec_ret_d")
       call sim_phase(1); dv = vec_ret_d(int(a, C_INT)); call sim_phase(0)
       sz = size(dv); sm = 0; if (sz > 0) sm = int(sum(dv) * 4)
       call res_arr(sz, sm); deallocate(dv)
#endif
#ifndef SIMC
    case ("cap_delete")
       call sim_phase(1); call caps(a)%delete(); call sim_phase(0); call res_none()
#endif
#ifndef SIMC
    case ("cap_scope")
       call scoped_capsule(a); call sim_phase(0)
#endif
#ifdef SIMC
    case ("pair_sum")
       pr%ifield = int(a, C_INT); pr%dfield = real(b, C_DOUBLE)
       call sim_phase(1); r = pair_sum(pr); call sim_phase(0); call res_int(int(r))
    case ("pair_ptr")
       pr%ifield = int(a, C_INT); pr%dfield = real(b, C_DOUBLE)
       call sim_phase(1); r = pair_ptr(pr); call sim_phase(0); call res_int(int(r))
    case ("pair_out")
       call sim_phase(1); call pair_out(pr); call sim_phase(0); call res_arr(int(pr%ifield), int(pr%dfield * 2))
    case ("pair_ret")
       call sim_phase(1); pr = pair_ret(int(a, C_INT), real(b, C_DOUBLE)); call sim_phase(0)
       call res_arr(int(pr%ifield), int(pr%dfield * 2))
    case ("pair_ret_ptr")
       call sim_phase(1); prp => pair_ret_ptr(int(a, C_INT), real(b, C_DOUBLE)); call sim_phase(0)
       call res_arr(int(prp%ifield), int(prp%dfield * 2))
#endif
    case default
       write(6, '(A,I0,A,A)') "RES ", k, " UNKNOWN-OP ", trim(op)
    end select
  end subroutine do_op
end program drv_f
