// Subject library of the C06 world: small, instrumented, deterministic.
#ifndef SIMLIB_HPP
#define SIMLIB_HPP
#include <string>
#include <vector>

class Item {
public:
    Item();
    Item(int v);
    Item(const Item &other);
    Item &operator=(const Item &other);
    ~Item();
    int value() const;
    void set(int v);
    int ident() const;
    const std::string &label() const;
    Item *twin();
    int combine(const Item &other) const;
    int addAll(const std::vector<int> &v) const;
private:
    void born();
    unsigned m_magic;
    int m_id;
    int m_value;
    std::string m_label;
};

class Box {
public:
    Box(int v);
    ~Box();
    int value() const;
private:
    unsigned m_magic;
    int m_id;
    int m_value;
};

// one class template, two instantiations: same short name, different types
int holder_born(const void *p, int v, const char *kind);
void holder_died(int id, int v, bool ok, const char *kind);
void holder_value(int id, int v);
template<typename T> struct HolderTag;
template<> struct HolderTag<int> { static unsigned tag() { return 0x11u; } static const char *kind() { return "hold_i"; } };
template<> struct HolderTag<double> { static unsigned tag() { return 0x22u; } static const char *kind() { return "hold_d"; } };
template<typename T> class Holder {
public:
    Holder(int v) : m_tag(HolderTag<T>::tag()), m_v(v) { m_pad[0] = static_cast<T>(v); m_id = holder_born(this, v, HolderTag<T>::kind()); }
    ~Holder() { holder_died(m_id, m_v, m_tag == HolderTag<T>::tag(), HolderTag<T>::kind()); m_tag = 0xDEADu; }
    T get() const { return static_cast<T>(m_v); }
    void put(T v) { m_v = static_cast<int>(v); holder_value(m_id, m_v); }
private:
    unsigned m_tag;
    int m_id;
    int m_v;
    T m_pad[3];
};

// plain structs (no constructors: what matters is the memory the wrappers hang on their members)
struct Pt { int x; double y; };
struct Arr { int n; int *vals; const char *name; };
struct Rec { int count[3]; int tail; double w[2]; double after; };  // fixed-size array members
int recSum(const Rec *r);
int ptSum(const Pt *p);
void ptOut(Pt *p, int x);
void ptScale(Pt *p, int k);
int arrTotal(const Arr *a);

// a class whose constructor takes an array (converted from a list in Python)
class Bag {
public:
    Bag(const int *vals, int n);
    ~Bag();
    int total() const;
private:
    unsigned m_magic;
    int m_id;
    int m_total;
};

Item *makeItem(int v);
Item *borrowItem();
Item *defaultItem();
Item copyItem(int v);
int useItem(const Item *o);
int sumItems(const Item &a, const Item &b);
int passItem(Item arg);
int vecDot(const std::vector<int> &a, const std::vector<int> &b);
Box *makeBox(int v);

const std::string &strRef();
std::string strVal(int n);
std::string strVal2(int n);
const std::string strVal3(int n);
const std::string *strOwned(int n);
const std::string *strLib();
const std::string *strFinal(int n);
int strIn(const std::string &s);
int strCountChar(const std::string &text, char c);
void strOut(std::string &s, int n);
void strInout(std::string &s);
int strPtrIn(const std::string *s);
int strValIn(std::string s);
const char *charRetLen(int n);
const char *charRetNull(int n);
void vecIotaD(std::vector<double> &v);
void charOut(char *dest, const char *src);
const char *charRet(int n);
void charInout(char *s);

int vecSum(const std::vector<int> &v);
void vecIota(std::vector<int> &v);
void vecInc(std::vector<int> &v);
void vecAlloc(std::vector<int> &v, int n);
void vecInoutAlloc(std::vector<int> &v);
void strPtrOut(std::string *s, int n);
std::vector<int> vecRet(int n);
int vecStrCount(const std::vector<std::string> &v);

int *arrNew(int n, int *len);
int *arrLib(int *len);
double *arrNewAlloc(int n, int *len);
int *arrNewPat(int n, int *len);
void arrFillPtr(int **out, int n);
void arrGrabRef(int *&out, int n);
int arrSum(const int *arr, int n);
int arrSumD(const double *arr, int n);
void arrFillOut(int n, double *out);
void arrSquares(int n, int *out);
void arrWeights(int *values, int nvalues, const int *weights, int nweights);
void charGrow(char *s);
int charArrLen(char **names, int n);
int charArrTwo(char **a, int na, char **b, int nb);
void arrInOut(const int *in, int nin, int n, double *out);
Item &refItem();
std::vector<double> vecRetD(int n);


namespace deep {
std::vector<long> vecRetL(int n);
}

// extra declarations: not called by the drivers; variants wrap a random subset of them to shift
// the destructor table
class Extra1 { public: Extra1() {} ~Extra1() {} };
class Extra2 { public: Extra2() {} ~Extra2() {} };
std::vector<double> extraVecD(int n);
const std::string *extraStrOwned();
Extra1 *extraMake1();

#endif
