#include "simlib.hpp"
#include "simhook.h"
#include <cstdlib>
#include <cstring>

namespace {
const unsigned MAGIC = 0x0B1EC7u, DEAD = 0xDEADDEADu;
int g_next_id = 1;
struct Guard {
    int prev;
    Guard() : prev(sim_lib_enter()) {}
    ~Guard() { sim_lib_exit(prev); }
};
// text of length n: "abc...", position dependent so that truncation/shift is visible
std::string pattern(int n) {
    std::string s;
    for (int i = 0; i < n; i++) s.push_back(static_cast<char>('a' + (i % 26)));
    return s;
}
Item *g_static_obj = 0;     // library owned
Item *g_default_obj = 0;    // library owned (default owner)
std::string *g_lib_string = 0;
int g_lib_array[6] = {60, 61, 62, 63, 64, 65};
std::string g_ref_string("reference-string");
char g_char_buf[64];
}

// ---------------------------------------------------------------- Item
void Item::born() {
    m_magic = MAGIC;
    m_id = g_next_id++;
    sim_obj_born(m_id, this);
    sim_obj_value(m_id, m_value);
    sim_event("ctor id=%d v=%d", m_id, m_value);
}
Item::Item() : m_value(-1), m_label("obj-default") { Guard g; born(); }
Item::Item(int v) : m_value(v), m_label("obj-" + std::to_string(v)) { Guard g; born(); }
Item::Item(const Item &o) : m_value(o.m_value), m_label(o.m_label) { Guard g; born(); }
Item &Item::operator=(const Item &o) {
    Guard g;
    if (m_magic != MAGIC || o.m_magic != MAGIC) sim_event("BADMAGIC assign id=%d", m_id);
    m_value = o.m_value;
    m_label = o.m_label;
    sim_obj_value(m_id, m_value);
    return *this;
}
Item::~Item() {
    Guard g;
    if (m_magic != MAGIC) sim_event("BADMAGIC dtor id=%d", m_id);
    sim_event("dtor id=%d v=%d", m_id, m_value);
    sim_obj_died(m_id);
    m_magic = DEAD;
}
int Item::value() const { Guard g; if (m_magic != MAGIC) sim_event("BADMAGIC value"); return m_value; }
void Item::set(int v) { Guard g; if (m_magic != MAGIC) sim_event("BADMAGIC set"); m_value = v; m_label = "obj-" + std::to_string(v); sim_obj_value(m_id, v); }
int Item::ident() const { Guard g; return m_id; }
const std::string &Item::label() const { Guard g; return m_label; }
int Item::combine(const Item &other) const { Guard g; if (m_magic != MAGIC || other.m_magic != MAGIC) sim_event("BADMAGIC combine"); return m_value * 3 + other.m_value; }
int Item::addAll(const std::vector<int> &v) const { Guard g; if (m_magic != MAGIC) sim_event("BADMAGIC addAll"); int s = m_value; for (size_t i = 0; i < v.size(); i++) s += v[i]; return s; }
Item *Item::twin() { Guard g; return new Item(m_value + 1000); }

// ---------------------------------------------------------------- Box (destructor not wrapped)
Box::Box(int v) : m_magic(MAGIC), m_id(g_next_id++), m_value(v) {
    Guard g;
    sim_obj_born(m_id, this);
    sim_obj_value(m_id, v);
    sim_event("ctor id=%d v=%d box", m_id, v);
}
Box::~Box() {
    Guard g;
    if (m_magic != MAGIC) sim_event("BADMAGIC dtor box id=%d", m_id);
    sim_event("dtor id=%d v=%d box", m_id, m_value);
    sim_obj_died(m_id);
    m_magic = DEAD;
}
int Box::value() const { Guard g; return m_value; }

// ---------------------------------------------------------------- Holder<T> (see simlib.hpp)
int holder_born(const void *p, int v, const char *kind) {
    Guard g;
    int id = g_next_id++;
    sim_obj_born(id, p);
    sim_obj_value(id, v);
    sim_event("ctor id=%d v=%d %s", id, v, kind);
    return id;
}
void holder_died(int id, int v, bool ok, const char *kind) {
    Guard g;
    if (!ok) sim_event("BADMAGIC dtor %s id=%d (destructor of another type)", kind, id);
    sim_event("dtor id=%d v=%d %s", id, v, kind);
    sim_obj_died(id);
}
void holder_value(int id, int v) { Guard g; sim_obj_value(id, v); }

// ---------------------------------------------------------------- structs
int recSum(const Rec *r) { Guard g; return r->count[0] + 10 * r->count[1] + 100 * r->count[2] + 1000 * r->tail + static_cast<int>(2 * (r->w[0] + r->w[1])) * 10000 + static_cast<int>(r->after) * 1000000; }
int ptSum(const Pt *p) { Guard g; return p->x * 10 + static_cast<int>(p->y * 2); }
void ptOut(Pt *p, int x) { Guard g; p->x = x; p->y = x + 0.5; }
void ptScale(Pt *p, int k) { Guard g; p->x *= k; p->y *= k; }
int arrTotal(const Arr *a) {
    Guard g;
    int t = 0;
    for (int i = 0; i < a->n && a->vals; i++) t += a->vals[i];
    return t + 1000 * (a->name ? static_cast<int>(std::strlen(a->name)) : 77);
}

// ---------------------------------------------------------------- Bag
Bag::Bag(const int *vals, int n) : m_magic(MAGIC), m_id(g_next_id++), m_total(0) {
    Guard g;
    for (int i = 0; i < n; i++) m_total += vals[i];
    m_total += 9000 + n;   // (unique enough to be told from Item values)
    sim_obj_born(m_id, this);
    sim_obj_value(m_id, m_total);
    sim_event("ctor id=%d v=%d bag", m_id, m_total);
}
Bag::~Bag() {
    Guard g;
    if (m_magic != MAGIC) sim_event("BADMAGIC dtor bag id=%d", m_id);
    sim_event("dtor id=%d v=%d bag", m_id, m_total);
    sim_obj_died(m_id);
    m_magic = DEAD;
}
int Bag::total() const { Guard g; if (m_magic != MAGIC) sim_event("BADMAGIC bag total"); return m_total; }

// ---------------------------------------------------------------- factories
Item *makeItem(int v) { Guard g; return new Item(v); }
Item *borrowItem() {
    Guard g;
    if (!g_static_obj) { g_static_obj = new Item(7001); sim_keep(g_static_obj, "obj"); }
    return g_static_obj;
}
Item *defaultItem() {
    Guard g;
    if (!g_default_obj) { g_default_obj = new Item(7002); sim_keep(g_default_obj, "obj"); }
    return g_default_obj;
}
Item copyItem(int v) { Guard g; return Item(v); }
int useItem(const Item *o) { Guard g; return o->value() * 2; }
int sumItems(const Item &a, const Item &b) { Guard g; return a.value() + b.value(); }
int passItem(Item arg) { Guard g; return arg.value() + 5; }
int vecDot(const std::vector<int> &a, const std::vector<int> &b) { Guard g; int s = 0; for (size_t i = 0; i < a.size() && i < b.size(); i++) s += a[i] * b[i]; return s + 1000 * static_cast<int>(a.size()) + 10 * static_cast<int>(b.size()); }
Box *makeBox(int v) { Guard g; return new Box(v); }

// ---------------------------------------------------------------- strings
const std::string &strRef() { Guard g; return g_ref_string; }
std::string strVal(int n) { Guard g; return pattern(n); }
std::string strVal2(int n) { Guard g; return pattern(n) + "2"; }
const std::string strVal3(int n) { Guard g; return pattern(n) + "33"; }
const std::string *strOwned(int n) {
    Guard g;
    std::string *s = new std::string(pattern(n));
    sim_handout(s, "string");
    return s;
}
const std::string *strFinal(int n) {
    Guard g;
    // a new string that the wrapper copies into a fixed-length result and then deletes
    // (user-supplied 'final' clause, the documented idiom)
    std::string *s = new std::string(pattern(n));
    sim_handout(s, "string");
    return s;
}
const std::string *strLib() {
    Guard g;
    if (!g_lib_string) { g_lib_string = new std::string("library-owned-string"); sim_keep(g_lib_string, "string"); }
    return g_lib_string;
}
int strIn(const std::string &s) {
    Guard g;
    int sum = static_cast<int>(s.size()) * 1000;
    for (size_t i = 0; i < s.size(); i++) sum += static_cast<unsigned char>(s[i]);
    return sum;
}
void strOut(std::string &s, int n) { Guard g; s = pattern(n); }
void strPtrOut(std::string *s, int n) { Guard g; *s = pattern(n); }
int strCountChar(const std::string &text, char c) { Guard g; int k = 0; for (size_t i = 0; i < text.size(); i++) if (text[i] == c) k++; return k + 100 * static_cast<int>(text.size()); }
void strInout(std::string &s) { Guard g; s = s + "+x"; }
int strPtrIn(const std::string *s) { Guard g; return strIn(*s) + 7; }
int strValIn(std::string s) { Guard g; return strIn(s) + 9; }
const char *charRetLen(int n) { Guard g; return charRet(n); }
const char *charRetNull(int n) { Guard g; return n < 0 ? 0 : charRet(n); }
void vecIotaD(std::vector<double> &v) { Guard g; v.clear(); for (int i = 0; i < 5; i++) v.push_back(i + 0.5); }
void charOut(char *dest, const char *src) { Guard g; std::strcpy(dest, src); }
const char *charRet(int n) {
    Guard g;
    if (n > 60) n = 60;
    std::string p = pattern(n);
    std::memcpy(g_char_buf, p.c_str(), n + 1);
    return g_char_buf;
}
void charInout(char *s) { Guard g; for (; *s; s++) if (*s >= 'a' && *s <= 'z') *s = static_cast<char>(*s - 32); }

// ---------------------------------------------------------------- vectors
int vecSum(const std::vector<int> &v) { Guard g; int s = 0; for (size_t i = 0; i < v.size(); i++) s += v[i]; return s + 100000 * static_cast<int>(v.size()); }
void vecIota(std::vector<int> &v) { Guard g; v.clear(); for (int i = 0; i < 5; i++) v.push_back(i + 1); }
void vecInc(std::vector<int> &v) { Guard g; for (size_t i = 0; i < v.size(); i++) v[i] += 1; }
void vecAlloc(std::vector<int> &v, int n) { Guard g; v.clear(); for (int i = 0; i < n; i++) v.push_back(10 * i); }
void vecInoutAlloc(std::vector<int> &v) { Guard g; size_t n = v.size(); for (size_t i = 0; i < n; i++) v.push_back(v[i] + 100); }
std::vector<int> vecRet(int n) { Guard g; std::vector<int> v; for (int i = 0; i < n; i++) v.push_back(i * i); return v; }
int vecStrCount(const std::vector<std::string> &v) { Guard g; int s = 0; for (size_t i = 0; i < v.size(); i++) s += static_cast<int>(v[i].size()) + 100; return s; }

// ---------------------------------------------------------------- arrays
int *arrNew(int n, int *len) {
    Guard g;
    // released with free() by the documented default for POD pointers
    int *a = static_cast<int *>(std::malloc(sizeof(int) * (n > 0 ? n : 1)));
    for (int i = 0; i < n; i++) a[i] = 500 + i;
    *len = n;
    sim_handout(a, "intarr");
    return a;
}
int *arrLib(int *len) { Guard g; *len = 6; return g_lib_array; }
double *arrNewAlloc(int n, int *len) {
    Guard g;
    double *a = static_cast<double *>(std::malloc(sizeof(double) * (n > 0 ? n : 1)));
    for (int i = 0; i < n; i++) a[i] = 0.5 + i;
    *len = n;
    sim_handout(a, "dblarr");
    return a;
}

int *arrNewPat(int n, int *len) {
    Guard g;
    // released with delete[] through the free_pattern
    int *a = new int[n > 0 ? n : 1];
    for (int i = 0; i < n; i++) a[i] = 900 + i;
    *len = n;
    sim_handout(a, "newarr");
    return a;
}
// caller-owned memory handed back through a pointer-to-pointer / reference-to-pointer argument
void arrFillPtr(int **out, int n) {
    Guard g;
    int *a = static_cast<int *>(std::malloc(sizeof(int) * (n > 0 ? n : 1)));
    for (int i = 0; i < n; i++) a[i] = 700 + i;
    sim_handout(a, "intarr");
    *out = a;
}
void arrGrabRef(int *&out, int n) {
    Guard g;
    int *a = static_cast<int *>(std::malloc(sizeof(int) * (n > 0 ? n : 1)));
    for (int i = 0; i < n; i++) a[i] = 800 + i;
    sim_handout(a, "intarr");
    out = a;
}
void arrSquares(int n, int *out) { Guard g; for (int i = 0; i < n; i++) out[i] = i * i; }
void arrFillOut(int n, double *out) { Guard g; for (int i = 0; i <= n; i++) out[i] = 0.5 * i; }
int arrSum(const int *arr, int n) { Guard g; int s = 0; for (int i = 0; i < n; i++) s += arr[i]; return s + 1000000 * n; }
void arrWeights(int *values, int nvalues, const int *weights, int nweights) { Guard g; for (int i = 0; i < nvalues; i++) values[i] *= (nweights > 0 ? weights[i % nweights] : 1); }
int arrSumD(const double *arr, int n) { Guard g; double s = 0; for (int i = 0; i < n; i++) s += arr[i]; return static_cast<int>(s * 2) + 1000 * n; }
void charGrow(char *s) { Guard g; std::strcat(s, "!!"); }
int charArrLen(char **names, int n) { Guard g; int t = 0; for (int i = 0; i < n; i++) { if (names[i]) t += static_cast<int>(std::strlen(names[i])) + 100; else t += 50; } return t; }
int charArrTwo(char **a, int na, char **b, int nb) { Guard g; return charArrLen(a, na) * 3 + charArrLen(b, nb); }
void arrInOut(const int *in, int nin, int n, double *out) { Guard g; int s = 0; for (int i = 0; i < nin; i++) s += in[i]; for (int i = 0; i < n; i++) out[i] = s + 0.5 * i; }
Item &refItem() { Guard g; return *borrowItem(); }
std::vector<double> vecRetD(int n) { Guard g; std::vector<double> v; for (int i = 0; i < n; i++) v.push_back(0.25 + i); return v; }

namespace deep {
std::vector<long> vecRetL(int n) { Guard g; std::vector<long> v; for (int i = 0; i < n; i++) v.push_back(7L * i); return v; }
}

// ---------------------------------------------------------------- extras (see simlib.hpp)
std::vector<double> extraVecD(int n) { Guard g; return std::vector<double>(n > 0 ? n : 0, 1.5); }
const std::string *extraStrOwned() { Guard g; std::string *s = new std::string("extra"); sim_handout(s, "string"); return s; }
Extra1 *extraMake1() { Guard g; return new Extra1; }
