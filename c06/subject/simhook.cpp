// Allocator seam + trace.  Nothing in here allocates.
#include "simhook.h"
#include <cstdarg>
#include <cstdio>
#include <cstring>
#include <unistd.h>

extern "C" int __sanitizer_install_malloc_and_free_hooks(
    void (*malloc_hook)(const volatile void *, size_t),
    void (*free_hook)(const volatile void *)) __attribute__((weak));

namespace {
const int NBLK = 1 << 16;
struct Blk { const void *p; size_t size; int phase; int op; int hand; int keep; int isobj; char kind[12]; };
Blk g_tab[NBLK];
int g_phase = SIM_PH_DRIVER;
int g_op = -1;
int g_inhook = 0;
int g_installed = 0;
int g_nhand = 0;
long g_wrapper_allocs = 0, g_wrapper_frees = 0;

const int NOBJ = 4096;
struct ObjRec { int id; const void *p; int value; int alive; };
ObjRec g_obj[NOBJ];
int g_nobj = 0;

char g_ev[1 << 16];
size_t g_evlen = 0;

unsigned hashp(const void *p) {
    unsigned long x = (unsigned long)p;
    x ^= x >> 17; x *= 0x9E3779B97F4A7C15UL; x ^= x >> 29;
    return (unsigned)(x & (NBLK - 1));
}
Blk *find(const void *p, bool create) {
    unsigned h = hashp(p);
    Blk *tomb = 0;
    for (int i = 0; i < NBLK; i++) {
        Blk *b = &g_tab[(h + i) & (NBLK - 1)];
        if (b->p == p) return b;
        if (b->p == 0) {
            if (!create) return 0;
            Blk *t = tomb ? tomb : b;
            memset(t, 0, sizeof *t);
            t->p = p;
            return t;
        }
        if (b->p == (const void *)1 && !tomb) tomb = b;
    }
    return 0;
}
void out(const char *s) { size_t n = strlen(s); ssize_t r = write(1, s, n); (void)r; }

void on_malloc(const volatile void *p, size_t size) {
    if (g_inhook || !p) return;
    g_inhook = 1;
    Blk *b = find((const void *)p, true);
    if (b) { b->size = size; b->phase = g_phase; b->op = g_op; b->hand = 0; b->keep = 0; b->isobj = 0; b->kind[0] = 0; }
    if (g_phase == SIM_PH_WRAPPER) g_wrapper_allocs++;
    g_inhook = 0;
}
void on_free(const volatile void *p) {
    if (g_inhook || !p) return;
    g_inhook = 1;
    Blk *b = find((const void *)p, false);
    if (b) {
        if (b->hand) sim_event("release hand=%d kind=%s by=%d", b->hand, b->kind, g_phase);
        if (b->keep) sim_event("KEPT-FREED kind=%s by=%d", b->kind, g_phase);
        if (b->phase == SIM_PH_WRAPPER) g_wrapper_frees++;
        b->p = (const void *)1;  // tombstone
    }
    g_inhook = 0;
}
}  // namespace

extern "C" {
void sim_init(void) {
    if (g_installed) return;
    g_installed = 1;
    if (__sanitizer_install_malloc_and_free_hooks)
        __sanitizer_install_malloc_and_free_hooks(on_malloc, on_free);
    else
        out("NOHOOKS\n");
}
void sim_phase(int phase) { g_phase = phase; }
int sim_lib_enter(void) { int prev = g_phase; g_phase = SIM_PH_LIBRARY; return prev; }
void sim_lib_exit(int prev) { g_phase = prev; }
void sim_event(const char *fmt, ...) {
    va_list ap;
    va_start(ap, fmt);
    if (g_evlen < sizeof g_ev - 256) {
        int n = vsnprintf(g_ev + g_evlen, 200, fmt, ap);
        if (n > 0) { g_evlen += (n < 200 ? n : 199); g_ev[g_evlen++] = ';'; g_ev[g_evlen] = 0; }
    }
    va_end(ap);
}
void sim_handout(const void *p, const char *kind) {
    int save = g_inhook; g_inhook = 1;
    Blk *b = find(p, false);
    if (b) { b->hand = ++g_nhand; strncpy(b->kind, kind, sizeof b->kind - 1); sim_event("hand=%d kind=%s", b->hand, kind); }
    else sim_event("HANDOUT-UNTRACKED kind=%s", kind);
    g_inhook = save;
}
void sim_keep(const void *p, const char *kind) {
    int save = g_inhook; g_inhook = 1;
    Blk *b = find(p, false);
    if (b) { b->keep = 1; strncpy(b->kind, kind, sizeof b->kind - 1); }
    g_inhook = save;
}
void sim_obj_born(int id, const void *p) {
    // a subject object constructed by wrapper code (ctor wrapper, by-value result) lives in a
    // wrapper-phase block that legitimately survives the op: it is accounted for by LIVE instead
    int save = g_inhook; g_inhook = 1;
    Blk *b = find(p, false);
    if (b) b->isobj = 1;
    g_inhook = save;
    if (g_nobj < NOBJ) { g_obj[g_nobj].id = id; g_obj[g_nobj].p = p; g_obj[g_nobj].value = 0; g_obj[g_nobj].alive = 1; g_nobj++; }
}
void sim_obj_died(int id) {
    for (int i = 0; i < g_nobj; i++) if (g_obj[i].id == id) { if (!g_obj[i].alive) sim_event("DOUBLE-DTOR id=%d", id); g_obj[i].alive = 0; return; }
    sim_event("DTOR-UNKNOWN id=%d", id);
}
void sim_obj_value(int id, int value) {
    for (int i = 0; i < g_nobj; i++) if (g_obj[i].id == id) { g_obj[i].value = value; return; }
}
void sim_op_begin(int k) { g_op = k; g_evlen = 0; g_ev[0] = 0; }
void sim_op_end(int k) {
    static char buf[1 << 16];
    size_t n = 0;
    n += snprintf(buf + n, sizeof buf - n, "LIVE %d", k);
    for (int i = 0; i < g_nobj && n < sizeof buf - 64; i++)
        if (g_obj[i].alive) n += snprintf(buf + n, sizeof buf - n, " %d", g_obj[i].value);
    n += snprintf(buf + n, sizeof buf - n, "\nHAND %d", k);
    long wl = 0, wb = 0;
    g_inhook = 1;
    for (int i = 0; i < NBLK && n < sizeof buf - 64; i++) {
        Blk *b = &g_tab[i];
        if (b->p == 0 || b->p == (const void *)1) continue;
        if (b->hand) n += snprintf(buf + n, sizeof buf - n, " %d:%s", b->hand, b->kind);
        if (b->phase == SIM_PH_WRAPPER && !b->isobj) { wl++; wb += (long)b->size; }
    }
    g_inhook = 0;
    n += snprintf(buf + n, sizeof buf - n, "\nMEM %d live=%ld bytes=%ld allocs=%ld frees=%ld\nEV %d %s\n",
                  k, wl, wb, g_wrapper_allocs, g_wrapper_frees, k, g_ev);
    out(buf);
    g_evlen = 0; g_ev[0] = 0;
}
long sim_wrapper_live(void) {
    long wl = 0;
    g_inhook = 1;
    for (int i = 0; i < NBLK; i++) {
        Blk *b = &g_tab[i];
        if (b->p == 0 || b->p == (const void *)1) continue;
        if (b->phase == SIM_PH_WRAPPER && !b->isobj) wl++;
    }
    g_inhook = 0;
    return wl;
}
void sim_final(void) { out("FINAL\n"); }
}
