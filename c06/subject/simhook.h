/* Harness API of the wrapped-program world (not wrapped by shroud).
 * Allocator seam, phase tracking, library trace.  C linkage; usable from C, C++,
 * Fortran (bind(C)) and Python (ctypes). */
#ifndef SIMHOOK_H
#define SIMHOOK_H
#include <stddef.h>
#ifdef __cplusplus
extern "C" {
#endif
enum { SIM_PH_DRIVER = 0, SIM_PH_WRAPPER = 1, SIM_PH_LIBRARY = 2 };
void sim_init(void);                 /* install allocator hooks */
void sim_phase(int phase);           /* driver: 1 before a wrapper call, 0 after */
int  sim_lib_enter(void);            /* library: returns previous phase */
void sim_lib_exit(int prev);
void sim_op_begin(int k);
void sim_op_end(int k);              /* prints LIVE / HAND / MEM / EV lines for op k */
void sim_event(const char *fmt, ...);
void sim_handout(const void *p, const char *kind);  /* caller-owned memory leaves the library */
void sim_keep(const void *p, const char *kind);     /* library-owned memory is exposed */
void sim_obj_born(int id, const void *p);
void sim_obj_died(int id);
void sim_obj_value(int id, int value);
long sim_wrapper_live(void);          /* wrapper-phase heap blocks alive now (excl. subject objects) */
void sim_final(void);                /* prints FINAL summary */
#ifdef __cplusplus
}
#endif
#endif
