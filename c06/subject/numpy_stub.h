/* Stand-in for numpy/arrayobject.h (there is no NumPy in the sandbox).  The struct-as-class wrapper
 * includes that header even with PY_array_arg: list, where the only thing it uses from it is
 * import_array() in the module initialisation.  Copied to <build>/numpy/arrayobject.h. */
#ifndef SIM_NUMPY_STUB_H
#define SIM_NUMPY_STUB_H
#define import_array()
#endif
