/* C driver of the C06 world: interprets an op file against the generated C API.
 * Compiled as C (the generated headers must be usable from C).  It plays the role of the
 * code a Fortran compiler would emit around the bufferify functions, at a finer grain, and
 * also exercises the plain C API and the release function directly.
 * Every caller buffer is an exact-size heap block so that ASan red zones catch any access
 * outside "the buffers the wrapper was given". */
#include <stdio.h>
#include <stdlib.h>
#include <string.h>
#ifdef SIMC
#include "typessimc.h"
#include "wrapsimc.h"
#else
#include "typessimlib.h"
#include "wrapsimlib.h"
#ifdef HAVE_Item
#include "wrapItem.h"
#endif
#ifdef HAVE_Box
#include "wrapBox.h"
#endif
#ifdef HAVE_Bag
#include "wrapBag.h"
#endif
#ifdef HAVE_Holder
#include "wrapHolder_int.h"
#include "wrapHolder_double.h"
#endif
#ifdef HAVE_deep
#include "wrapsimlib_deep.h"
#endif
#endif
#include "simhook.h"

/* helpers that are implemented in C but normally called from Fortran through bind(C) */
#ifdef HAVE_ARRAY
void SIM_ShroudCopyStringAndFree(SIM_SHROUD_array *data, char *c_var, size_t c_var_len);
void SIM_ShroudCopyArray(SIM_SHROUD_array *data, void *c_var, size_t c_var_size);
#endif

#define NH 8
#define NC 4
#ifdef HAVE_Item
static SIM_Item h[NH];
#endif
#ifdef HAVE_Box
static SIM_Box bx[NH];
#endif
#ifdef HAVE_Bag
static SIM_Bag bg[NH];
#endif
#ifdef HAVE_Holder
static SIM_Holder_int hi[NH];
static SIM_Holder_double hd[NH];
#endif
static SIM_SHROUD_capsule_data caps[NC];
static int k;

static void res_none(void) { printf("RES %d\n", k); }
static void res_int(long v) { printf("RES %d %ld\n", k, v); }
static void res_str(const char *s, size_t n) { printf("RES %d %zu [%.*s]\n", k, n, (int)n, s ? s : ""); }
static void res_arr(long n, long sum) { printf("RES %d %ld %ld\n", k, n, sum); }

static char *exact(size_t n) { return (char *)malloc(n ? n : 1); }

#ifdef HAVE_COPYSTRING
/* fetch a string result through the context protocol used by the Fortran wrappers */
static void fetch_string(SIM_SHROUD_array *d)
{
    size_t n = d->elem_len;
    char *buf = exact(n);
    SIM_ShroudCopyStringAndFree(d, buf, n);
    sim_phase(0);
    res_str(buf, n);
    free(buf);
}
#endif

static size_t len_trim(const char *s, size_t n)
{
    while (n > 0 && s[n - 1] == ' ') n--;
    return n;
}

/* a blank padded Fortran-like buffer of exactly cap bytes holding text */
static char *fbuf(const char *text, size_t cap)
{
    char *b = exact(cap);
    size_t n = strlen(text);
    if (n > cap) n = cap;
    memset(b, ' ', cap);
    memcpy(b, text, n);
    return b;
}

static void do_op(const char *op, int a, int b, const char *text)
{
#ifdef HAVE_ARRAY
    SIM_SHROUD_array d;
    memset(&d, 0, sizeof d);
#endif
    if (0) { }
#ifndef SIMC
    else if (!strcmp(op, "item_default")) { sim_phase(1); SIM_Item_ctor_default(&h[a]); sim_phase(0); res_none(); }
#endif
#ifndef SIMC
    else if (!strcmp(op, "item_val")) { sim_phase(1); SIM_Item_ctor_val(b, &h[a]); sim_phase(0); res_none(); }
#endif
#ifndef SIMC
    else if (!strcmp(op, "item_delete")) { sim_phase(1); SIM_Item_delete(&h[a]); sim_phase(0); res_none(); }
#endif
#ifndef SIMC
    else if (!strcmp(op, "item_release")) {
        /* release through the capsule: honours the destructor index (0 = library owned) */
        sim_phase(1); SIM_SHROUD_memory_destructor((SIM_SHROUD_capsule_data *)&h[a]); sim_phase(0); res_none();
    }
#endif
#ifndef SIMC
    else if (!strcmp(op, "item_value")) { sim_phase(1); int r = SIM_Item_value(&h[a]); sim_phase(0); res_int(r); }
#endif
#ifndef SIMC
    else if (!strcmp(op, "item_set")) { sim_phase(1); SIM_Item_set(&h[a], b); sim_phase(0); res_none(); }
#endif
#ifndef SIMC
    else if (!strcmp(op, "item_label")) { sim_phase(1); SIM_Item_label_bufferify(&h[a], &d); fetch_string(&d); }
#endif
#ifndef SIMC
    else if (!strcmp(op, "item_twin")) { sim_phase(1); SIM_Item_twin(&h[a], &h[b]); sim_phase(0); res_none(); }
#endif
#ifndef SIMC
    else if (!strcmp(op, "make_item")) { sim_phase(1); SIM_make_item(b, &h[a]); sim_phase(0); res_none(); }
#endif
#ifndef SIMC
    else if (!strcmp(op, "borrow_item")) { sim_phase(1); SIM_borrow_item(&h[a]); sim_phase(0); res_none(); }
#endif
#ifndef SIMC
    else if (!strcmp(op, "default_item")) { sim_phase(1); SIM_default_item(&h[a]); sim_phase(0); res_none(); }
#endif
#ifndef SIMC
    else if (!strcmp(op, "copy_item")) { sim_phase(1); SIM_copy_item(b, &h[a]); sim_phase(0); res_none(); }
#endif
#ifndef SIMC
    else if (!strcmp(op, "use_item")) { sim_phase(1); int r = SIM_use_item(&h[a]); sim_phase(0); res_int(r); }
#endif
#ifndef SIMC
    else if (!strcmp(op, "sum_items")) { sim_phase(1); int r = SIM_sum_items(&h[a], &h[b]); sim_phase(0); res_int(r); }
#endif
#ifndef SIMC
    else if (!strcmp(op, "assign")) { h[b] = h[a]; res_none(); }
#endif
#ifndef SIMC
    else if (!strcmp(op, "hi_new")) { sim_phase(1); SIM_Holder_int_ctor(b, &hi[a]); sim_phase(0); res_none(); }
    else if (!strcmp(op, "hd_new")) { sim_phase(1); SIM_Holder_double_ctor(b, &hd[a]); sim_phase(0); res_none(); }
    else if (!strcmp(op, "hi_get")) { sim_phase(1); int r = SIM_Holder_int_get(&hi[a]); sim_phase(0); res_int(r); }
    else if (!strcmp(op, "hd_get")) { sim_phase(1); double r = SIM_Holder_double_get(&hd[a]); sim_phase(0); res_int((long)r); }
    else if (!strcmp(op, "hi_put")) { sim_phase(1); SIM_Holder_int_put(&hi[a], b); sim_phase(0); res_none(); }
    else if (!strcmp(op, "hd_put")) { sim_phase(1); SIM_Holder_double_put(&hd[a], (double)b); sim_phase(0); res_none(); }
    else if (!strcmp(op, "hi_delete")) { sim_phase(1); SIM_Holder_int_delete(&hi[a]); sim_phase(0); res_none(); }
    else if (!strcmp(op, "hd_delete")) { sim_phase(1); SIM_Holder_double_delete(&hd[a]); sim_phase(0); res_none(); }
    /* two instantiations of one template released through the library's release function */
    else if (!strcmp(op, "hi_release")) { sim_phase(1); SIM_SHROUD_memory_destructor((SIM_SHROUD_capsule_data *)&hi[a]); sim_phase(0); res_none(); }
    else if (!strcmp(op, "hd_release")) { sim_phase(1); SIM_SHROUD_memory_destructor((SIM_SHROUD_capsule_data *)&hd[a]); sim_phase(0); res_none(); }
    else if (!strcmp(op, "arr_weights")) {
        int *v = (int *)exact(sizeof(int) * a); for (int i = 0; i < a; i++) v[i] = i + 1;
        int *w = (int *)exact(sizeof(int) * b); for (int i = 0; i < b; i++) w[i] = 2 + i;
        sim_phase(1); SIM_arr_weights(v, a, w, b); sim_phase(0);
        long s = 0; for (int i = 0; i < a; i++) s += v[i];
        res_arr(a, s); free(v); free(w);
    }
#endif
#ifndef SIMC
    else if (!strcmp(op, "pt_sum")) { SIM_pt p; p.x = a; p.y = a + 0.5; sim_phase(1); int r = SIM_pt_sum(&p); sim_phase(0); res_int(r); }
    else if (!strcmp(op, "pt_out")) { SIM_pt p; p.x = -1; p.y = -1; sim_phase(1); SIM_pt_out(&p, a); sim_phase(0); res_arr(p.x, (long)(p.y * 2)); }
    else if (!strcmp(op, "pt_scale")) { SIM_pt p; p.x = a; p.y = a + 0.5; sim_phase(1); SIM_pt_scale(&p, b); sim_phase(0); res_arr(p.x, (long)(p.y * 2)); }
#endif
#ifndef SIMC
    else if (!strcmp(op, "bag_new")) {
        int *v = (int *)exact(sizeof(int) * b); for (int i = 0; i < b; i++) v[i] = i + 1;
        sim_phase(1); SIM_Bag_ctor(v, b, &bg[a]); sim_phase(0); res_none(); free(v);
    }
    else if (!strcmp(op, "bag_total")) { sim_phase(1); int r = SIM_Bag_total(&bg[a]); sim_phase(0); res_int(r); }
    else if (!strcmp(op, "bag_delete")) { sim_phase(1); SIM_Bag_delete(&bg[a]); sim_phase(0); res_none(); }
#endif
#ifndef SIMC
    else if (!strcmp(op, "make_box")) { sim_phase(1); SIM_make_box(b, &bx[a]); sim_phase(0); res_none(); }
#endif
#ifndef SIMC
    else if (!strcmp(op, "box_new")) { sim_phase(1); SIM_Box_ctor(b, &bx[a]); sim_phase(0); res_none(); }
#endif
#ifndef SIMC
    else if (!strcmp(op, "box_value")) { sim_phase(1); int r = SIM_Box_value(&bx[a]); sim_phase(0); res_int(r); }
    /* ---- strings through the context protocol */
#endif
#ifndef SIMC
    else if (!strcmp(op, "str_ref")) { sim_phase(1); SIM_str_ref_bufferify(&d); fetch_string(&d); }
#endif
#ifndef SIMC
    else if (!strcmp(op, "str_val")) { sim_phase(1); SIM_str_val_bufferify(a, &d); fetch_string(&d); }
    else if (!strcmp(op, "str_val2")) { sim_phase(1); SIM_str_val2_bufferify(a, &d); fetch_string(&d); }
    else if (!strcmp(op, "str_val3")) { sim_phase(1); SIM_str_val3_bufferify(a, &d); fetch_string(&d); }
#endif
#ifndef SIMC
    else if (!strcmp(op, "str_owned")) { sim_phase(1); SIM_str_owned_bufferify(a, &d); fetch_string(&d); }
#endif
#ifndef SIMC
    else if (!strcmp(op, "str_final")) {
        char *buf = exact(30); memset(buf, '#', 30);
        sim_phase(1); SIM_str_final_bufferify(a, buf, 30); sim_phase(0); res_str(buf, 30); free(buf);
    }
#endif
#ifndef SIMC
    else if (!strcmp(op, "str_lib")) { sim_phase(1); SIM_str_lib_bufferify(&d); fetch_string(&d); }
#endif
    else if (!strcmp(op, "char_ret")) { sim_phase(1); SIM_char_ret_bufferify(a, &d); fetch_string(&d); }
#ifndef SIMC
    else if (!strcmp(op, "str_in")) {
        char *buf = fbuf(text, a);
        sim_phase(1); int r = SIM_str_in_bufferify(buf, (int)len_trim(buf, a)); sim_phase(0); res_int(r); free(buf);
    }
#endif
#ifndef SIMC
    else if (!strcmp(op, "str_out")) {
        char *buf = exact(a); memset(buf, '#', a);
        sim_phase(1); SIM_str_out_bufferify(buf, a, b); sim_phase(0); res_str(buf, a); free(buf);
    }
#endif
#ifndef SIMC
    else if (!strcmp(op, "str_inout")) {
        char *buf = fbuf(text, a);
        sim_phase(1); SIM_str_inout_bufferify(buf, (int)len_trim(buf, a), a); sim_phase(0); res_str(buf, a); free(buf);
    }
#endif
    else if (!strcmp(op, "char_out")) {
        char *buf = exact(a); memset(buf, '#', a);
        size_t n = len_trim(text, strlen(text));
        char *src = exact(n + 1); memcpy(src, text, n); src[n] = 0;
        sim_phase(1); SIM_char_out_bufferify(buf, a, src); sim_phase(0); res_str(buf, a); free(buf); free(src);
    }
    else if (!strcmp(op, "char_inout")) {
        char *buf = fbuf(text, a);
        sim_phase(1); SIM_char_inout_bufferify(buf, (int)len_trim(buf, a), a); sim_phase(0); res_str(buf, a); free(buf);
    }
    /* ---- plain C string API (NUL terminated) */
#ifndef SIMC
    else if (!strcmp(op, "cstr_ref")) { sim_phase(1); const char *p = SIM_str_ref(); sim_phase(0); res_str(p, strlen(p)); }
#endif
#ifndef SIMC
    else if (!strcmp(op, "cstr_lib")) { sim_phase(1); const char *p = SIM_str_lib(); sim_phase(0); res_str(p, strlen(p)); }
#endif
#ifndef SIMC
    else if (!strcmp(op, "cstr_owned")) { sim_phase(1); const char *p = SIM_str_owned(a); sim_phase(0); res_str(p, strlen(p)); }
#endif
#ifndef SIMC
    else if (!strcmp(op, "cstr_in")) {
        size_t n = strlen(text); char *s = exact(n + 1); memcpy(s, text, n + 1);
        sim_phase(1); int r = SIM_str_in(s); sim_phase(0); res_int(r); free(s);
    }
#endif
#ifndef SIMC
    else if (!strcmp(op, "cstr_out")) {
        /* exact fit: n characters + NUL */
        char *s = exact((size_t)b + 1);
        sim_phase(1); SIM_str_out(s, b); sim_phase(0); res_str(s, strlen(s)); free(s);
    }
#endif
#ifndef SIMC
    else if (!strcmp(op, "cstr_inout")) {
        size_t n = strlen(text); char *s = exact(n + 3); memcpy(s, text, n + 1);
        sim_phase(1); SIM_str_inout(s); sim_phase(0); res_str(s, strlen(s)); free(s);
    }
    /* ---- vectors */
#endif
#ifndef SIMC
    else if (!strcmp(op, "vec_sum")) {
        int *v = (int *)exact(sizeof(int) * a); for (int i = 0; i < a; i++) v[i] = i + 1;
        sim_phase(1); int r = SIM_vec_sum_bufferify(v, a); sim_phase(0); res_int(r); free(v);
    }
#endif
#ifndef SIMC
    else if (!strcmp(op, "vec_iota")) {
        int *v = (int *)exact(sizeof(int) * a); for (int i = 0; i < a; i++) v[i] = -7;
        sim_phase(1); SIM_vec_iota_bufferify(&d); SIM_ShroudCopyArray(&d, v, a); sim_phase(0);
        long s = 0; for (int i = 0; i < a; i++) s += v[i];
        res_arr(a, s); free(v);
    }
#endif
#ifndef SIMC
    else if (!strcmp(op, "vec_inc")) {
        int *v = (int *)exact(sizeof(int) * a); for (int i = 0; i < a; i++) v[i] = 10 * (i + 1);
        sim_phase(1); SIM_vec_inc_bufferify(v, a, &d); SIM_ShroudCopyArray(&d, v, a); sim_phase(0);
        long s = 0; for (int i = 0; i < a; i++) s += v[i];
        res_arr(a, s); free(v);
    }
#endif
#ifndef SIMC
    else if (!strcmp(op, "vec_alloc")) {
        sim_phase(1);
        SIM_vec_alloc_bufferify(&d, a);
        size_t n = d.size;
        int *v = (int *)exact(sizeof(int) * n);
        SIM_ShroudCopyArray(&d, v, n); sim_phase(0);
        long s = 0; for (size_t i = 0; i < n; i++) s += v[i];
        res_arr((long)n, s); free(v);
    }
    else if (!strcmp(op, "vec_ret")) {
        sim_phase(1);
        SIM_vec_ret_bufferify(a, &d);
        size_t n = d.size;
        int *v = (int *)exact(sizeof(int) * n);
        SIM_ShroudCopyArray(&d, v, n); sim_phase(0);
        long s = 0; for (size_t i = 0; i < n; i++) s += v[i];
        res_arr((long)n, s); free(v);
    }
#endif
#ifndef SIMC
    else if (!strcmp(op, "vec_str_count")) {
        char *names = exact((size_t)a * b); memset(names, ' ', (size_t)a * b);
        for (int i = 1; i <= a; i++) memset(names + (size_t)(i - 1) * b, 'q', (i - 1) % (b + 1));
        sim_phase(1); int r = SIM_vec_str_count_bufferify(names, a, b); sim_phase(0); res_int(r); free(names);
    }
    /* ---- arrays */
#endif
#ifndef SIMC
    else if (!strcmp(op, "arr_new")) {
        int len = 0;
        sim_phase(1);
        SIM_SHROUD_memory_destructor(&caps[b]);          /* what intent(out) finalisation does in Fortran */
        int *p = SIM_arr_new_bufferify(&d, a, &len);
        caps[b] = d.cxx; sim_phase(0);
        long s = 0; for (int i = 0; i < len; i++) s += p[i];
        res_arr(len, s);
    }
#endif
    else if (!strcmp(op, "arr_lib")) {
        int len = 0;
        sim_phase(1); int *p = SIM_arr_lib_bufferify(&d, &len); sim_phase(0);
        long s = 0; for (int i = 0; i < len; i++) s += p[i];
        res_arr(len, s);
    }
#ifndef SIMC
    else if (!strcmp(op, "arr_new_alloc")) {
        int len = 0;
        sim_phase(1); SIM_arr_new_alloc_bufferify(&d, a, &len);
        double *v = (double *)exact(sizeof(double) * len);
        SIM_ShroudCopyArray(&d, v, len); sim_phase(0);
        double s = 0; for (int i = 0; i < len; i++) s += v[i];
        res_arr(len, (long)(s * 2)); free(v);
    }
#endif
#ifndef SIMC
    else if (!strcmp(op, "arr_pat")) {
        int len = 0;
        sim_phase(1);
        SIM_SHROUD_memory_destructor(&caps[b]);
        int *p = SIM_arr_new_pat_bufferify(&d, a, &len);
        caps[b] = d.cxx; sim_phase(0);
        long s = 0; for (int i = 0; i < len; i++) s += p[i];
        res_arr(len, s);
    }
#endif
#ifndef SIMC
    else if (!strcmp(op, "arr_pp")) {
        /* caller-owned memory through an 'int **' output argument */
        sim_phase(1);
        SIM_SHROUD_memory_destructor(&caps[b]);
        SIM_arr_fill_ptr_bufferify(&d, a);
        caps[b] = d.cxx; sim_phase(0);
        int *p = (int *)d.addr.base; int len = (int)d.size;
        long s = 0; for (int i = 0; i < len; i++) s += p[i];
        res_arr(len, s);
    }
#endif
#ifndef SIMC
    else if (!strcmp(op, "arr_gref")) {
        /* ... and through an 'int *&' output argument */
        sim_phase(1);
        SIM_SHROUD_memory_destructor(&caps[b]);
        SIM_arr_grab_ref_bufferify(&d, a);
        caps[b] = d.cxx; sim_phase(0);
        int *p = (int *)d.addr.base; int len = (int)d.size;
        long s = 0; for (int i = 0; i < len; i++) s += p[i];
        res_arr(len, s);
    }
#endif
#ifndef SIMC
    else if (!strcmp(op, "arr_sum")) {
        int *v = (int *)exact(sizeof(int) * a); for (int i = 0; i < a; i++) v[i] = 3 * (i + 1);
        sim_phase(1); int r = SIM_arr_sum(v, a); sim_phase(0); res_int(r); free(v);
    }
#endif
    else if (!strcmp(op, "char_grow")) {
        char *buf = fbuf(text, a);
        sim_phase(1); SIM_char_grow_bufferify(buf, (int)len_trim(buf, a), a); sim_phase(0); res_str(buf, a); free(buf);
    }
    else if (!strcmp(op, "char_arr")) {
        char *names = exact((size_t)a * b); memset(names, ' ', (size_t)a * b);
        for (int i = 1; i <= a; i++) memset(names + (size_t)(i - 1) * b, 'w', (i - 1) % (b + 1));
        sim_phase(1); int r = SIM_char_arr_len_bufferify(names, a, b, a); sim_phase(0); res_int(r); free(names);
    }
    else if (!strcmp(op, "char_ret_len")) {
        char *buf = exact(30);
        sim_phase(1); SIM_char_ret_len_bufferify(a, buf, 30); sim_phase(0); res_str(buf, 30); free(buf);
    }
#ifndef SIMC
    else if (!strcmp(op, "vec_ret_l")) {
        sim_phase(1); SIM_deep_vec_ret_l_bufferify(a, &d);
        size_t n = d.size;
        long *v = (long *)exact(sizeof(long) * n);
        SIM_ShroudCopyArray(&d, v, n); sim_phase(0);
        long s = 0; for (size_t i = 0; i < n; i++) s += v[i];
        res_arr((long)n, s); free(v);
    }
    else if (!strcmp(op, "item_add_all")) {
        int *v = (int *)exact(sizeof(int) * b); for (int i = 0; i < b; i++) v[i] = i + 1;
        sim_phase(1); int r = SIM_Item_add_all_bufferify(&h[a], v, b); sim_phase(0); res_int(r); free(v);
    }
    else if (!strcmp(op, "arr_sum_d")) {
        double *v = (double *)exact(sizeof(double) * a); for (int i = 0; i < a; i++) v[i] = 0.5 * (i + 1);
        sim_phase(1); int r = SIM_arr_sum_d(v, a); sim_phase(0); res_int(r); free(v);
    }
    else if (!strcmp(op, "item_combine")) { sim_phase(1); int r = SIM_Item_combine(&h[a], &h[b]); sim_phase(0); res_int(r); }
    else if (!strcmp(op, "pass_item")) { sim_phase(1); int r = SIM_pass_item(h[a]); sim_phase(0); res_int(r); }
    else if (!strcmp(op, "vec_dot")) {
        int *va = (int *)exact(sizeof(int) * a), *vb = (int *)exact(sizeof(int) * b);
        for (int i = 0; i < a; i++) va[i] = i + 1;
        for (int i = 0; i < b; i++) vb[i] = 2 * (i + 1);
        sim_phase(1); int r = SIM_vec_dot_bufferify(va, a, vb, b); sim_phase(0); res_int(r); free(va); free(vb);
    }
    else if (!strcmp(op, "vec_inout_alloc")) {
        int *v = (int *)exact(sizeof(int) * a); for (int i = 0; i < a; i++) v[i] = i + 1;
        sim_phase(1); SIM_vec_inout_alloc_bufferify(v, a, &d);
        size_t n = d.size;
        int *w = (int *)exact(sizeof(int) * n);
        SIM_ShroudCopyArray(&d, w, n); sim_phase(0);
        long s = 0; for (size_t i = 0; i < n; i++) s += w[i];
        res_arr((long)n, s); free(v); free(w);
    }
    else if (!strcmp(op, "str_ptr_out")) {
        char *buf = exact(a); memset(buf, '#', a);
        sim_phase(1); SIM_str_ptr_out_bufferify(buf, a, b); sim_phase(0); res_str(buf, a); free(buf);
    }
    else if (!strcmp(op, "arr_fill_out")) {
        double *v = (double *)exact(sizeof(double) * (a + 1)); for (int i = 0; i <= a; i++) v[i] = -1.0;
        sim_phase(1); SIM_arr_fill_out(a, v); sim_phase(0);
        double s = 0; for (int i = 0; i <= a; i++) s += v[i];
        res_arr(a + 1, (long)(s * 2)); free(v);
    }
    else if (!strcmp(op, "str_ptr_in")) {
        char *buf = fbuf(text, a);
        sim_phase(1);
        int r = SIM_str_ptr_in_bufferify(buf, (int)len_trim(buf, a));
        sim_phase(0); res_int(r); free(buf);
    }
    else if (!strcmp(op, "str_val_in")) {
        char *buf = fbuf(text, a);
        sim_phase(1);
        int r = SIM_str_val_in_bufferify(buf, (int)len_trim(buf, a));
        sim_phase(0); res_int(r); free(buf);
    }
    else if (!strcmp(op, "char_ret_null")) { sim_phase(1); SIM_char_ret_null_bufferify(a, &d); fetch_string(&d); }
    else if (!strcmp(op, "vec_iota_d")) {
        double *v = (double *)exact(sizeof(double) * a); for (int i = 0; i < a; i++) v[i] = -7.0;
        sim_phase(1); SIM_vec_iota_d_bufferify(&d); SIM_ShroudCopyArray(&d, v, a); sim_phase(0);
        double s = 0; for (int i = 0; i < a; i++) s += v[i];
        res_arr(a, (long)(s * 2)); free(v);
    }
    else if (!strcmp(op, "box_release")) {
        sim_phase(1); SIM_SHROUD_memory_destructor((SIM_SHROUD_capsule_data *)&bx[a]); sim_phase(0); res_none();
    }
#endif
#ifndef SIMC
    else if (!strcmp(op, "ref_item")) { sim_phase(1); SIM_ref_item(&h[a]); sim_phase(0); res_none(); }
#endif
#ifndef SIMC
    else if (!strcmp(op, "vec_ret_d")) {
        sim_phase(1); SIM_vec_ret_d_bufferify(a, &d);
        size_t n = d.size;
        double *v = (double *)exact(sizeof(double) * n);
        SIM_ShroudCopyArray(&d, v, n); sim_phase(0);
        double s = 0; for (size_t i = 0; i < n; i++) s += v[i];
        res_arr((long)n, (long)(s * 4)); free(v);
    }
#endif
#ifndef SIMC
    else if (!strcmp(op, "cap_delete")) { sim_phase(1); SIM_SHROUD_memory_destructor(&caps[a]); sim_phase(0); res_none(); }
#endif
#ifndef SIMC
    else if (!strcmp(op, "cap_scope")) {
        int len = 0;
        SIM_SHROUD_capsule_data cap;
        sim_phase(1); int *p = SIM_arr_new_bufferify(&d, a, &len); cap = d.cxx; sim_phase(0);
        long s = 0; for (int i = 0; i < len; i++) s += p[i];
        res_arr(len, s);
        sim_phase(1); SIM_SHROUD_memory_destructor(&cap); sim_phase(0);
    }
#endif
    else printf("RES %d UNKNOWN-OP %s\n", k, op);
}

int main(int argc, char **argv)
{
    char line[1024], op[64];
    FILE *fp;
    setvbuf(stdout, NULL, _IONBF, 0);
    if (argc < 2 || !(fp = fopen(argv[1], "r"))) return 2;
    sim_init();
#ifdef HAVE_Item
    memset(h, 0, sizeof h);
#endif
#ifdef HAVE_Box
    memset(bx, 0, sizeof bx);
#endif
#ifdef HAVE_Holder
    memset(hi, 0, sizeof hi); memset(hd, 0, sizeof hd);
#endif
    memset(caps, 0, sizeof caps);
    k = 0;
    while (fgets(line, sizeof line, fp)) {
        int a = 0, b = 0;
        char *text = strchr(line, '|');
        size_t n = strlen(line);
        if (n && line[n - 1] == '\n') line[--n] = 0;
        if (text) { *text = 0; text++; } else text = "";
        if (sscanf(line, "%63s %d %d", op, &a, &b) < 1) continue;
        sim_op_begin(k);
        do_op(op, a, b, text);
        sim_op_end(k);
        k++;
    }
    fclose(fp);
    sim_final();
    return 0;
}
