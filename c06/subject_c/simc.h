/* C subject library of the C06 world (wrapped with language: c). */
#ifndef SIMC_H
#define SIMC_H
#ifdef __cplusplus
extern "C" {
#endif
struct Pair {
    int ifield;
    double dfield;
};
typedef struct Pair Pair;
void charOut(char *dest, const char *src);
const char *charRet(int n);
const char *charRetLen(int n);
void charInout(char *s);
void charGrow(char *s);
int charArrLen(char **names, int n);
char *nameNew(int n);
int *arrNew(int n, int *len);
int *arrLib(int *len);
double *arrNewAlloc(int n, int *len);
int arrSum(const int *arr, int n);
int pairSum(Pair p);
int pairPtr(const Pair *p);
void pairOut(Pair *p);
Pair pairRet(int i, double d);
Pair *pairRetPtr(int i, double d);
#ifdef __cplusplus
}
#endif
#endif
