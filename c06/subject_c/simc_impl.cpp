// Implementation of the C subject library (C linkage, instrumented like simlib.cpp).
#include "simc.h"
#include "simhook.h"
#include <cstdlib>
#include <cstring>
#include <string>

namespace {
struct Guard {
    int prev;
    Guard() : prev(sim_lib_enter()) {}
    ~Guard() { sim_lib_exit(prev); }
};
std::string pattern(int n) {
    std::string s;
    for (int i = 0; i < n; i++) s.push_back(static_cast<char>('a' + (i % 26)));
    return s;
}
char g_char_buf[64];
int g_lib_array[6] = {60, 61, 62, 63, 64, 65};
Pair g_pair;
}

extern "C" {
void charOut(char *dest, const char *src) { Guard g; std::strcpy(dest, src); }
const char *charRet(int n) {
    Guard g;
    if (n > 60) n = 60;
    std::string p = pattern(n);
    std::memcpy(g_char_buf, p.c_str(), n + 1);
    return g_char_buf;
}
const char *charRetLen(int n) { return charRet(n); }
void charInout(char *s) { Guard g; for (; *s; s++) if (*s >= 'a' && *s <= 'z') *s = static_cast<char>(*s - 32); }
void charGrow(char *s) { Guard g; std::strcat(s, "!!"); }
int charArrLen(char **names, int n) { Guard g; int t = 0; for (int i = 0; i < n; i++) if (names[i]) t += static_cast<int>(std::strlen(names[i])) + 100; return t; }
char *nameNew(int n) {
    Guard g;
    char *s = static_cast<char *>(std::malloc(n + 1));
    std::string p = pattern(n);
    std::memcpy(s, p.c_str(), n + 1);
    sim_handout(s, "cstring");
    return s;
}
int *arrNew(int n, int *len) {
    Guard g;
    int *a = static_cast<int *>(std::malloc(sizeof(int) * (n > 0 ? n : 1)));
    for (int i = 0; i < n; i++) a[i] = 500 + i;
    *len = n;
    sim_handout(a, "intarr");
    return a;
}
int *arrLib(int *len) { Guard g; *len = 6; return g_lib_array; }
double *arrNewAlloc(int n, int *len) {
    Guard g;
    double *a = static_cast<double *>(std::malloc(sizeof(double) * (n > 0 ? n : 1)));
    for (int i = 0; i < n; i++) a[i] = 0.5 + i;
    *len = n;
    sim_handout(a, "dblarr");
    return a;
}
int arrSum(const int *arr, int n) { Guard g; int s = 0; for (int i = 0; i < n; i++) s += arr[i]; return s + 1000000 * n; }
int pairSum(Pair p) { Guard g; return p.ifield * 10 + static_cast<int>(p.dfield); }
int pairPtr(const Pair *p) { Guard g; return p->ifield * 100 + static_cast<int>(p->dfield); }
void pairOut(Pair *p) { Guard g; p->ifield = 7; p->dfield = 2.5; }
Pair pairRet(int i, double d) { Guard g; Pair p; p.ifield = i; p.dfield = d; return p; }
Pair *pairRetPtr(int i, double d) { Guard g; g_pair.ifield = i; g_pair.dfield = d; return &g_pair; }
}
